// Fixture for the stale-loop-state rule: per-iteration locals hoisted out of a for loop.
#include <vector>

int fixtureLoopStateGood(const std::vector<int> &items)
{
    int total = 0;
    for (const auto &item : items) {
        int index = 0;
        int found = -1;
        while (found < 0) {
            if (index >= item) {
                found = index;
            }
            ++index;
        }
        total += found;
    }
    return total;
}

int fixtureLoopStateBad(const std::vector<int> &items)
{
    int total = 0;
    int found = -1;
    for (const auto &item : items) {
        int index = 0;
        while (found < 0) { // reads what the previous iteration left behind
            if (index >= item) {
                found = index;
            }
            ++index;
        }
        total += item;
    }
    return total;
}

// Emit-once-per-group loops (engines.last_seen_dedup): remembering only the LAST group handled is right only when groups are contiguous.
struct FixtureItem
{
    int group;
    int groupOf() const { return group; }
};

int fixtureLastSeenBad(const std::vector<FixtureItem> &items)
{
    int emitted = 0;
    int handled = -1;
    for (const auto &item : items) {
        if (item.groupOf() != handled) { // A1 B1 A2: group A is emitted twice
            ++emitted;
            handled = item.groupOf();
        }
    }
    return emitted;
}

int fixtureLastSeenGood(const std::vector<FixtureItem> &items)
{
    int emitted = 0;
    std::vector<int> handled;
    for (const auto &item : items) {
        bool seen = false;
        for (int g : handled) {
            seen = seen || (g == item.groupOf());
        }
        if (!seen) {
            ++emitted;
            handled.push_back(item.groupOf());
        }
    }
    return emitted;
}

// A fallback after a search loop is guarded by the RESULT being empty, not by the collection being empty (engines.fallback_guards).
#include <map>
#include <string>
std::string fixtureFallbackBad(const std::map<int, std::string> &ids, const std::string &direct)
{
    std::string id;
    for (const auto &entry : ids) {
        id = entry.second; // may well be ""
    }
    if (ids.empty()) {
        id = direct;
    }
    return id;
}

std::string fixtureFallbackGood(const std::map<int, std::string> &ids, const std::string &direct)
{
    std::string id;
    for (const auto &entry : ids) {
        id = entry.second;
    }
    if (id.empty()) {
        id = direct;
    }
    return id;
}
