// Fixture for the stale-loop-state rule: per-iteration locals hoisted out of a for loop.
#include <vector>

int fixtureLoopStateGood(const std::vector<int> &items)
{
    int total = 0;
    for (const auto &item : items) {
        int index = 0;
        int found = -1;
        while (found < 0) {
            if (index >= item) {
                found = index;
            }
            ++index;
        }
        total += found;
    }
    return total;
}

int fixtureLoopStateBad(const std::vector<int> &items)
{
    int total = 0;
    int found = -1;
    for (const auto &item : items) {
        int index = 0;
        while (found < 0) { // reads what the previous iteration left behind
            if (index >= item) {
                found = index;
            }
            ++index;
        }
        total += item;
    }
    return total;
}
