// Fixture for the rule on std::regex patterns applied to input text (C01.X6).
#include <regex>
#include <string>

bool fixtureRegexBad(const std::string &candidate)
{
    static const std::regex basicReal("-?([0-9]+\\.?[0-9]*|\\.[0-9]+)"); // unbounded repetition: one stack frame per character
    return std::regex_match(candidate, basicReal);
}

std::string fixtureRegexGood(const std::string &text)
{
    static const std::regex newLine("\\n"); // no repetition
    static const std::regex plusInClass("[+*]x{2}\\+"); // quantifier characters inside a class / escaped, bounded count
    return std::regex_replace(std::regex_replace(text, newLine, "."), plusInClass, "");
}
