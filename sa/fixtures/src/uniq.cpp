// Fixture for the unique-without-sort rule.
#include <algorithm>
#include <vector>

void fixtureUniqueBad(std::vector<int> &v)
{
    v.erase(std::unique(v.begin(), v.end()), v.end()); // only adjacent duplicates go
}

void fixtureUniqueGood(std::vector<int> &v)
{
    std::sort(v.begin(), v.end());
    v.erase(std::unique(v.begin(), v.end()), v.end());
}
