// Fixture for the unique-without-sort rule.
#include <algorithm>
#include <vector>

void fixtureUniqueBad(std::vector<int> &v)
{
    v.erase(std::unique(v.begin(), v.end()), v.end()); // only adjacent duplicates go
}

void fixtureUniqueGood(std::vector<int> &v)
{
    std::sort(v.begin(), v.end());
    v.erase(std::unique(v.begin(), v.end()), v.end());
}

// Binary searches need a sorted range (rule_sorted_search).
bool fixtureSearchBad(std::vector<int> &seen, int x)
{
    auto it = std::lower_bound(seen.begin(), seen.end(), x); // seen is kept in insertion order
    bool found = (it != seen.end()) && (*it == x);
    seen.push_back(x);
    return found;
}

bool fixtureSearchGood(std::vector<int> &seen, int x)
{
    std::sort(seen.begin(), seen.end());
    return std::binary_search(seen.begin(), seen.end(), x);
}

// Whole-sequence comparisons are order sensitive (engines.whole_sequence_compares).
#include <map>
bool fixtureSeqEqBad(const std::map<int, std::vector<int>> &a, const std::map<int, std::vector<int>> &b)
{
    return a == b;
}

bool fixtureSeqEqGood(const std::vector<int> &a, int x)
{
    return std::find(a.begin(), a.end(), x) != a.end(); // an iterator against end(): not a sequence comparison
}
