// Fixture for the address-ordering rule.
#include <memory>
#include <string>

bool fixtureAddrOrderBad(const std::shared_ptr<std::string> &a, const std::shared_ptr<std::string> &b)
{
    return a < b; // depends on where the two objects were allocated
}

bool fixtureAddrOrderGood(const std::shared_ptr<std::string> &a, const std::shared_ptr<std::string> &b)
{
    return (a != b) && (*a < *b);
}
