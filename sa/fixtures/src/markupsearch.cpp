// Fixture for the markup-text-search rule.
#include <string>

bool fixtureMarkupSearchBad(const std::string &math)
{
    return math.find("<cn") != std::string::npos; // does not see <mml:cn ...>
}

bool fixtureMarkupSearchBadQName(const std::string &math)
{
    return math.find("cellml:units") != std::string::npos; // does not see cml:units with xmlns:cml bound to the CellML namespace
}

bool fixtureMarkupSearchGood(const std::string &math)
{
    return math.find("units") != std::string::npos || math.find("http://www.w3.org") != std::string::npos || math.find("std::string") != std::string::npos;
}
