// Fixture for the markup-text-search rule.
#include <string>

bool fixtureMarkupSearchBad(const std::string &math)
{
    return math.find("<cn") != std::string::npos; // does not see <mml:cn ...>
}

bool fixtureMarkupSearchGood(const std::string &math)
{
    return math.find("units") != std::string::npos;
}
