"""Fact base for the /verif static checks.

Builds (and caches, keyed by a hash of the analysed sources) the per-unit JSON produced by
sa/extract/cellml_facts.cc for every unit of the `cellml` library target, merges it and offers
AST / CFG / call-graph helpers to the rule engines.  Nothing here executes libCellML.
"""
import fcntl
import glob
import hashlib
import json
import os
import re
import shlex
import shutil
import subprocess
import sys
import time

VERIF = os.path.dirname(os.path.dirname(os.path.abspath(__file__)))
CACHE = os.path.join(VERIF, '.cache')
BIN = os.path.join(CACHE, 'bin', 'cellml_facts')
EXTRACT_SRC = os.path.join(VERIF, 'sa', 'extract', 'cellml_facts.cc')
LIBXML_INC_CANDIDATES = ['/root/miniconda/include/libxml2', '/usr/include/libxml2']


class AnalysisBroken(Exception):
    """An anchor vanished / a unit failed to parse / the engine cannot apply: exit 2, never a verdict."""


def repo_root():
    return os.environ.get('VERIF_REPO', '/repo')


# --------------------------------------------------------------------------- extraction

def build_extractor(force=False):
    if os.path.exists(BIN) and not force and os.path.getmtime(BIN) >= os.path.getmtime(EXTRACT_SRC):
        return
    os.makedirs(os.path.dirname(BIN), exist_ok=True)
    cxxflags = subprocess.check_output(['llvm-config-14', '--cxxflags'], text=True).split()
    tmp = BIN + '.tmp.%d' % os.getpid()
    cmd = ['clang++'] + cxxflags + ['-fno-rtti', '-w', EXTRACT_SRC, '-o', tmp,
                                     '/usr/lib/llvm-14/lib/libclang-cpp.so.14', '/usr/lib/llvm-14/lib/libLLVM-14.so']
    r = subprocess.run(cmd, stdout=subprocess.PIPE, stderr=subprocess.STDOUT, text=True)
    if r.returncode != 0:
        raise AnalysisBroken('cannot build the fact extractor:\n' + r.stdout[-2000:])
    os.replace(tmp, BIN)


def _source_files(src):
    """Sources of target `cellml` according to src/CMakeLists.txt (SOURCE_FILES)."""
    txt = open(os.path.join(src, 'CMakeLists.txt')).read()
    m = re.search(r'set\(SOURCE_FILES(.*?)\)', txt, re.S)
    if not m:
        raise AnalysisBroken('SOURCE_FILES not found in src/CMakeLists.txt')
    files = re.findall(r'\$\{CMAKE_CURRENT_SOURCE_DIR\}/([\w./]+\.cpp)', m.group(1))
    return files


def _gen_headers(root, gen):
    """Configured headers: take them from <root>/_build when present, else synthesise them."""
    os.makedirs(os.path.join(gen, 'api', 'libcellml'), exist_ok=True)
    b = os.path.join(root, '_build', 'src')
    e_src = os.path.join(b, 'api', 'libcellml', 'exportdefinitions.h')
    v_src = os.path.join(b, 'versionconfig.h')
    e_dst = os.path.join(gen, 'api', 'libcellml', 'exportdefinitions.h')
    v_dst = os.path.join(gen, 'versionconfig.h')
    if os.path.exists(e_src):
        shutil.copyfile(e_src, e_dst)
    else:
        open(e_dst, 'w').write('#pragma once\n#define LIBCELLML_EXPORT __attribute__((visibility("default")))\n'
                               '#define LIBCELLML_NO_EXPORT __attribute__((visibility("hidden")))\n'
                               '#define LIBCELLML_DEPRECATED __attribute__((__deprecated__))\n'
                               '#define LIBCELLML_DEPRECATED_EXPORT LIBCELLML_EXPORT LIBCELLML_DEPRECATED\n')
    if os.path.exists(v_src):
        shutil.copyfile(v_src, v_dst)
    else:
        open(v_dst, 'w').write('#pragma once\n#include <string>\nnamespace libcellml {\n'
                               '#define LIBCELLML_VERSION_MAJOR 0\n#define LIBCELLML_VERSION_MINOR 0\n#define LIBCELLML_VERSION_PATCH 0\n'
                               'static unsigned int LIBCELLML_LIBRARY_VERSION = 0x000000;\n'
                               'static const std::string LIBCELLML_LIBRARY_VERSION_STRING = "0.0.0";\n}\n')


def _compile_units(root):
    """(file, flags) per unit.  Uses the real build's compilation database when there is one."""
    src = os.path.join(root, 'src')
    listed = _source_files(src)
    units = {}
    ninja = os.path.join(root, '_build', 'build.ninja')
    if os.path.exists(ninja) and shutil.which('ninja'):
        try:
            out = subprocess.check_output(['ninja', '-C', os.path.join(root, '_build'), '-t', 'compdb'], text=True,
                                          stderr=subprocess.DEVNULL)
            for e in json.loads(out):
                f = e['file']
                if os.path.dirname(f) == src and f.endswith('.cpp') and 'cellml.dir' in e.get('output', e['command']):
                    toks = shlex.split(e['command'])
                    keep = []
                    skip = False
                    for t in toks:
                        if skip:
                            skip = False
                            continue
                        if t in ('-MT', '-MF', '-o', '-isystem'):
                            if t == '-isystem':
                                keep.append(t)
                                continue
                            skip = True
                            continue
                        if t.startswith('-D') or t.startswith('-I') or t.startswith('/') and keep and keep[-1] == '-isystem':
                            keep.append(t)
                    units[f] = keep
        except Exception:
            units = {}
    gen = os.path.join(CACHE, 'gen', hashlib.sha1(root.encode()).hexdigest()[:10])
    _gen_headers(root, gen)
    xml_inc = next((p for p in LIBXML_INC_CANDIDATES if os.path.isdir(p)), None)
    default = ['-Dcellml_EXPORTS', '-I' + gen + '/api', '-I' + src + '/api', '-I' + src + '/api/libcellml/module', '-I' + gen]
    if xml_inc:
        default += ['-isystem', xml_inc]
    for f in listed:
        p = os.path.join(src, f)
        if p not in units:
            units[p] = list(default)
            if f == 'xmldoc.cpp':
                # per-source definition of src/CMakeLists.txt (libxml2 >= 2.12 passes a const error pointer)
                units[p].append('-DXML_ERROR_CALLBACK_ARGUMENT_TYPE=const xmlError *')
    missing = [f for f in listed if os.path.join(src, f) not in units]
    if missing:
        raise AnalysisBroken('units missing from the compilation database: %s' % missing)
    fixed = ['-std=gnu++17', '-UNDEBUG', '-fPIC', '-fvisibility=hidden', '-w']
    return [(f, [x for x in fl if x != '-DNDEBUG'] + fixed) for f, fl in sorted(units.items())], len(listed)


def _tree_hash(root, units):
    h = hashlib.sha256()
    src = os.path.join(root, 'src')
    paths = []
    for dp, dn, fn in os.walk(src):
        if '/bindings' in dp:
            continue
        for f in fn:
            if f.endswith(('.cpp', '.h', '.txt')):
                paths.append(os.path.join(dp, f))
    for p in sorted(paths):
        h.update(p[len(root):].encode())
        h.update(open(p, 'rb').read())
    for f, fl in units:
        h.update((' '.join(fl)).replace(root, '<root>').encode())
    h.update(open(EXTRACT_SRC, 'rb').read())
    return h.hexdigest()[:24]


def _run_one(args):
    f, flags, out, root = args
    cmd = [BIN, '--root=' + os.path.join(root, 'src'), '--out=' + out, f, '--', '/usr/bin/clang++'] + flags + ['-c', f]
    r = subprocess.run(cmd, stdout=subprocess.PIPE, stderr=subprocess.STDOUT, text=True)
    ok = r.returncode == 0 and os.path.exists(out) and os.path.getsize(out) > 0
    return f, ok, r.stdout[-1500:]


def ensure_facts(root=None, jobs=16):
    """Returns (directory with one JSON per unit, meta dict)."""
    root = root or repo_root()
    os.makedirs(CACHE, exist_ok=True)
    with open(os.path.join(CACHE, 'lock'), 'w') as lk:
        fcntl.flock(lk, fcntl.LOCK_EX)
        build_extractor()
        units, listed = _compile_units(root)
        key = _tree_hash(root, units)
        d = os.path.join(CACHE, 'facts', key)
        meta_p = os.path.join(d, 'META.json')
        if os.path.exists(meta_p):
            try:
                os.utime(d, None)       # a set in use is a recent set (see the pruning below)
            except OSError:
                pass
            return d, json.load(open(meta_p))
        t0 = time.time()
        os.makedirs(d, exist_ok=True)
        from concurrent.futures import ThreadPoolExecutor
        # unit-level cache: a unit whose own text, headers and flags are unchanged is not parsed again (paths are stored root-relative)
        ucache = os.path.join(CACHE, 'units')
        os.makedirs(ucache, exist_ok=True)
        gen = os.path.join(CACHE, 'gen', hashlib.sha1(root.encode()).hexdigest()[:10])
        hh = hashlib.sha256()
        hdrs = []
        for base in (os.path.join(root, 'src'), gen):
            for dp, dn, fn in os.walk(base):
                if '/bindings' in dp:
                    continue
                hdrs += [os.path.join(dp, x) for x in fn if x.endswith('.h')]
        for hp in sorted(hdrs):
            hh.update(hp.replace(root, '<root>').replace(gen, '<gen>').encode())
            hh.update(open(hp, 'rb').read())
        hh.update(open(EXTRACT_SRC, 'rb').read())
        hdr_hash = hh.hexdigest()

        def ukey(f, fl):
            h = hashlib.sha256()
            h.update(hdr_hash.encode())
            h.update(f[len(root):].encode())
            h.update(open(f, 'rb').read())
            h.update(' '.join(fl).replace(root, '<root>').replace(gen, '<gen>').encode())
            return h.hexdigest()[:32]
        jobs_l = []
        res = []
        keys = {}
        for f, fl in units:
            out = os.path.join(d, os.path.basename(f) + '.json')
            uk = ukey(f, fl)
            keys[f] = uk
            cp = os.path.join(ucache, uk + '.json')
            if os.path.exists(cp):
                txt = open(cp).read().replace('@GEN@', gen).replace('@ROOT@', root)
                open(out, 'w').write(txt)
                os.utime(cp, None)
                res.append((f, True, ''))
            else:
                jobs_l.append((f, fl, out, root))
        with ThreadPoolExecutor(max_workers=jobs) as ex:
            fresh = list(ex.map(_run_one, jobs_l))
        for f, ok, o in fresh:
            if ok:
                out = os.path.join(d, os.path.basename(f) + '.json')
                txt = open(out).read().replace(gen, '@GEN@').replace(root, '@ROOT@')
                tmpf = os.path.join(ucache, keys[f] + '.json.tmp.%d' % os.getpid())
                open(tmpf, 'w').write(txt)
                os.replace(tmpf, os.path.join(ucache, keys[f] + '.json'))
        res += fresh
        olds = sorted(glob.glob(os.path.join(ucache, '*.json')), key=os.path.getmtime)
        for oldf in olds[:-400]:
            os.unlink(oldf)
        bad = [(f, o) for f, ok, o in res if not ok]
        if bad:
            shutil.rmtree(d, ignore_errors=True)
            raise AnalysisBroken('units failed to parse: ' + '; '.join('%s: %s' % (f, o.strip().splitlines()[-1] if o.strip() else '?') for f, o in bad))
        meta = {'root': root, 'units': [f for f, _ in units], 'listed_sources': listed, 'extract_s': round(time.time() - t0, 2), 'key': key, 'units_parsed': len(jobs_l), 'units_from_cache': len(units) - len(jobs_l)}
        json.dump(meta, open(meta_p, 'w'))
        # keep the cache small: drop all but the 24 most recent fact sets, and none that was used in the last ten minutes (the self-validation
        # harnesses analyse many scratch trees at once; a set is read after the lock is released, so a set still in use must not be pruned:
        # with 6 kept and 8 trees in flight a checker now and then lost its facts under its feet - exit 2, "internal error")
        sets = sorted(glob.glob(os.path.join(CACHE, 'facts', '*')), key=os.path.getmtime)
        now0 = time.time()
        for old in sets[:-24]:
            if now0 - os.path.getmtime(old) > 600:
                shutil.rmtree(old, ignore_errors=True)
        # configured headers are kept per analysed root: the scratch copies of the self-validation runs leave one directory each
        now = time.time()
        for gd in glob.glob(os.path.join(CACHE, 'gen', '*')):
            try:
                if gd != gen and now - os.path.getmtime(gd) > 3600:
                    shutil.rmtree(gd, ignore_errors=True)
            except OSError:
                pass
        return d, meta



def fixture_funcs(name):
    """Functions of /verif/sa/fixtures/<name>.cpp, parsed by the same extractor (for rules that expect zero instances in /repo:
    a tiny positive example that has to match on every run)."""
    build_extractor()
    src = os.path.join(VERIF, 'sa', 'fixtures', 'src', name + '.cpp')
    h = hashlib.sha256(open(src, 'rb').read() + open(EXTRACT_SRC, 'rb').read()).hexdigest()[:24]
    d = os.path.join(CACHE, 'fixtures')
    os.makedirs(d, exist_ok=True)
    out = os.path.join(d, '%s.%s.json' % (name, h))
    if not os.path.exists(out):
        f, ok, msg = _run_one((src, ['-std=gnu++17', '-w'], out, os.path.join(VERIF, 'sa', 'fixtures')))
        if not ok:
            raise AnalysisBroken('fixture %s does not parse: %s' % (name, msg[-300:]))
    u = json.load(open(out))
    fs = [Func(f) for f in u['functions']]
    if not fs:
        raise AnalysisBroken('fixture %s: no functions extracted' % name)
    return {f.name: f for f in fs}


# --------------------------------------------------------------------------- AST helpers

def walk(n):
    """Pre-order over a node and its descendants."""
    stack = [n]
    while stack:
        x = stack.pop()
        yield x
        c = x.get('c')
        if c:
            stack.extend(reversed(c))


def role(n, name):
    r = n.get('r')
    if not r:
        return None
    for i, x in enumerate(r):
        if x == name:
            return n['c'][i]
    return None


def is_call(n, *names):
    if n.get('k') != 'Call':
        return False
    if not names:
        return True
    c = n.get('callee', '')
    fn = n.get('fn', '')
    for nm in names:
        if c == nm or fn == nm or c.endswith('::' + nm):
            return True
    return False


def strip_arrow(n):
    """`p->` on a smart pointer is a call of operator->; return the pointer expression."""
    while n is not None and n.get('k') == 'Call' and n.get('opc') in ('->', '*') and len(n.get('c', [])) == 1:
        n = n['c'][0]
    return n


def render(n, depth=0):
    """Source-like canonical rendering of an expression (used as a signature and in reports)."""
    if n is None:
        return ''
    if depth > 40:
        return '...'
    k = n.get('k')
    c = n.get('c', [])
    R = lambda x: render(x, depth + 1)
    if k == 'Ref':
        return n.get('q') if n.get('dk') in ('enumc',) else n.get('n', '?')
    if k == 'This':
        return 'this'
    if k == 'Str':
        return json.dumps(n.get('v', ''))
    if k in ('Int', 'Float', 'Char'):
        return str(n.get('v'))
    if k == 'Bool':
        return 'true' if n.get('v') else 'false'
    if k == 'Null_':
        return 'nullptr'
    if k == 'Member':
        b = c[0] if c else None
        if b is None or b.get('k') == 'This':
            return n['n']
        bb = strip_arrow(b)
        return R(bb) + ('->' if n.get('arrow') or bb is not b else '.') + n['n']
    if k == 'Call':
        opc = n.get('opc')
        if opc:
            if opc in ('->', '*') and len(c) == 1:
                return ('*' if opc == '*' else '') + R(c[0])
            if opc == '()':
                return R(c[0]) + '(' + ', '.join(R(x) for x in c[1:]) + ')'
            if opc == '[]' and len(c) == 2:
                return R(c[0]) + '[' + R(c[1]) + ']'
            if len(c) == 2:
                return R(c[0]) + ' ' + opc + ' ' + R(c[1])
            if len(c) == 1:
                return opc + R(c[0])
        fn = n.get('fn', '?')
        if n.get('conv'):
            return 'bool(' + R(c[0]) + ')' if n['conv'] == 'bool' else 'conv<' + n['conv'] + '>(' + R(c[0]) + ')'
        if n.get('mc') and c:
            o = c[0]
            args = c[1:]
            if o.get('k') in ('This', 'NoObj'):
                return fn + '(' + ', '.join(R(x) for x in args) + ')'
            oo = strip_arrow(o)
            return R(oo) + ('->' if n.get('arrow') or oo is not o else '.') + fn + '(' + ', '.join(R(x) for x in args) + ')'
        if n.get('callee') == '?':
            return R(c[0]) + '(' + ', '.join(R(x) for x in c[1:]) + ')' if c else '?()'
        short = n.get('callee', fn)
        short = short.replace('libcellml::', '')
        return short + '(' + ', '.join(R(x) for x in c) + ')'
    if k == 'Construct':
        t = n.get('cls', n.get('t', '')).replace('libcellml::', '')
        if len(c) == 1 and t in ('std::shared_ptr', 'std::basic_string', 'std::weak_ptr'):
            return R(c[0])
        return t + '(' + ', '.join(R(x) for x in c) + ')'
    if k in ('Bin', 'CAssign'):
        return R(c[0]) + ' ' + n['op'] + ' ' + R(c[1])
    if k == 'Un':
        return (R(c[0]) + n['op']) if n.get('postfix') else (n['op'] + R(c[0]))
    if k == 'Cond':
        return R(c[0]) + ' ? ' + R(c[1]) + ' : ' + R(c[2])
    if k == 'Subscript':
        return R(c[0]) + '[' + R(c[1]) + ']'
    if k == 'Cast':
        return 'cast<' + n.get('t', '') + '>(' + (R(c[0]) if c else '') + ')'
    if k == 'InitList':
        return '{' + ', '.join(R(x) for x in c) + '}'
    if k == 'Lambda':
        return '[lambda]'
    if k == 'DefArg':
        return R(c[0]) if c else '<default>'
    if k == 'Var':
        return n.get('n', '?')
    return k + '(' + ', '.join(R(x) for x in c) + ')'


def null_test(cond):
    """If `cond` is a null test of an expression, return (tested expr node, True when cond==true means non-null)."""
    if cond is None:
        return None
    k = cond.get('k')
    c = cond.get('c', [])
    if k == 'Call' and cond.get('opc') in ('!=', '==') and len(c) == 2:
        a, b = c
        if b.get('k') == 'Null_':
            return (a, cond['opc'] == '!=')
        if a.get('k') == 'Null_':
            return (b, cond['opc'] == '!=')
    if k == 'Bin' and cond.get('op') in ('!=', '==') and len(c) == 2:
        a, b = c
        if b.get('k') == 'Null_' or (b.get('k') == 'Int' and b.get('v') == 0 and False):
            return (a, cond['op'] == '!=')
        if a.get('k') == 'Null_':
            return (b, cond['op'] == '!=')
    if k == 'Call' and cond.get('conv') == 'bool' and c:
        return (c[0], True)
    if k == 'Un' and cond.get('op') == '!' and c:
        r = null_test(c[0])
        if r:
            return (r[0], not r[1])
        # raw pointer `!p`
        if c[0].get('k') in ('Ref', 'Member') and c[0].get('t', '').endswith('*'):
            return (c[0], False)
    if k in ('Ref', 'Member') and cond.get('t', '').endswith('*'):
        return (cond, True)
    return None


# --------------------------------------------------------------------------- functions & CFG

class Func:
    def __init__(self, j):
        self.j = j
        self.key = j['key']
        self.qname = j['qname']
        self.name = j['name']
        self.cls = j.get('cls')
        self.file = j['file']
        self.line = j['line']
        self.params = j.get('params', [])
        self.body = j['body']
        self._nodes = None
        self._parent = None
        self._cfgs = None

    @property
    def short(self):
        return self.qname.replace('libcellml::', '')

    def _index(self):
        self._nodes = {}
        self._parent = {}
        stack = [(self.body, None)]
        for ini in self.j.get('inits', []):
            if ini.get('init'):
                stack.append((ini['init'], None))
        while stack:
            n, p = stack.pop()
            self._nodes[n['i']] = n
            self._parent[n['i']] = p
            for ch in n.get('c', ()):
                stack.append((ch, n))

    @property
    def nodes(self):
        if self._nodes is None:
            self._index()
        return self._nodes

    def parent(self, n):
        if self._parent is None:
            self._index()
        return self._parent.get(n['i'])

    def ancestors(self, n):
        p = self.parent(n)
        while p is not None:
            yield p
            p = self.parent(p)

    def walk(self):
        return walk(self.body)

    def calls(self, *names):
        for n in self.walk():
            if n.get('k') == 'Call' and (not names or is_call(n, *names)):
                yield n

    def enclosing_lambda(self, n):
        for a in self.ancestors(n):
            if a.get('k') == 'Lambda':
                return a
        return None

    def cfg(self, root=0):
        if self._cfgs is None:
            self._cfgs = {}
            for cj in self.j.get('cfgs', []):
                if not cj.get('failed'):
                    self._cfgs[cj['root']] = CFG(self, cj)
        return self._cfgs.get(root)

    def cfg_for(self, n):
        lam = self.enclosing_lambda(n)
        return self.cfg(lam['i'] if lam else 0)

    def where(self, n=None):
        return '%s:%d' % (self.file, (n or {}).get('l') or self.line)


class CFG:
    def __init__(self, func, j):
        self.func = func
        self.entry = j['entry']
        self.exit = j['exit']
        self.blocks = {b['id']: b for b in j['blocks']}
        self.succ = {b['id']: [s for s in b['succ'] if s is not None] for b in j['blocks']}
        self.pred = {b: [] for b in self.blocks}
        for b, ss in self.succ.items():
            for s in ss:
                self.pred[s].append(b)
        self.pos = {}
        for b in j['blocks']:
            for idx, e in enumerate(b['el']):
                self.pos.setdefault(e, (b['id'], idx))
        self._dom = None
        self._pdom = None

    def block_of(self, n):
        """(block, index) of an AST node: itself, else its first descendant that is a CFG element."""
        for x in walk(n):
            p = self.pos.get(x['i'])
            if p:
                return p
        return None

    def _dominators(self, entry, succ, pred):
        order = []
        seen = set()
        st = [entry]
        while st:
            b = st.pop()
            if b in seen:
                continue
            seen.add(b)
            order.append(b)
            st.extend(succ[b])
        dom = {b: set(order) for b in order}
        dom[entry] = {entry}
        changed = True
        while changed:
            changed = False
            for b in order:
                if b == entry:
                    continue
                ps = [p for p in pred[b] if p in dom]
                if not ps:
                    continue
                new = set.intersection(*(dom[p] for p in ps)) | {b}
                if new != dom[b]:
                    dom[b] = new
                    changed = True
        return dom

    @property
    def dom(self):
        if self._dom is None:
            self._dom = self._dominators(self.entry, self.succ, self.pred)
        return self._dom

    @property
    def pdom(self):
        if self._pdom is None:
            self._pdom = self._dominators(self.exit, self.pred, self.succ)
        return self._pdom

    def reachable(self, b):
        return b in self.dom

    def node_dominates(self, a, b):
        """AST node a is evaluated on every path from entry to AST node b."""
        pa, pb = self.block_of(a), self.block_of(b)
        if pa is None or pb is None:
            return False
        if pa[0] == pb[0]:
            return pa[1] <= pb[1]
        return pa[0] in self.dom.get(pb[0], ())

    def branch_facts(self, kill=None, canon=None):
        """Forward must-analysis: for every block the set of (condition node id, truth) that hold on every
        path from entry.  Conditions are the blocks' last conditions (so `a && b` is split by the CFG).
        `kill(fact_cond_node, block)` may veto propagation through a block that changes the tested value."""
        facts_in = {b: None for b in self.blocks}
        facts_in[self.entry] = frozenset()
        work = [self.entry]
        while work:
            b = work.pop()
            fin = facts_in[b]
            if fin is None:
                continue
            blk = self.blocks[b]
            out = fin
            if kill is not None and out:
                out = frozenset(f for f in out if not kill(self.func.nodes.get(f[0]), blk))
            ss = blk['succ']
            cond = blk.get('lc') or blk.get('tc')
            tk = blk.get('tk')
            # `while (true)` / `for (;;)`-style literal conditions: the edge for the other truth value is infeasible
            lit = None
            if cond and len(ss) == 2:
                cn_ = self.func.nodes.get(cond)
                while cn_ is not None and cn_.get('k') in ('Paren', 'Cast') and len(cn_.get('c', [])) == 1:
                    cn_ = cn_['c'][0]
                if cn_ is not None and cn_.get('k') == 'Bool':
                    lit = bool(cn_.get('v'))
            for idx, s in enumerate(ss):
                if s is None:
                    continue
                if lit is not None and tk not in ('SwitchStmt', 'CXXTryStmt', 'CXXForRangeStmt') and (idx == 0) != lit:
                    continue
                f = out
                if cond and len(ss) == 2 and tk not in ('SwitchStmt', 'CXXTryStmt', 'CXXForRangeStmt'):
                    # conditions with the same text are the same fact (so that `if (a) {if (c) return;} else if (c) return;`
                    # leaves `c` false on the merged path)
                    f = out | {((canon(cond) if canon else cond), idx == 0)}
                    # short-circuit operators: `a || b` is true on the true edge of either operand, `a && b` false on
                    # the false edge of either operand; at the second operand the whole condition has that operand's truth
                    term = self.func.nodes.get(blk.get('term')) if blk.get('term') else None
                    if tk == 'BinaryOperator' and term is not None and term.get('k') == 'Bin':
                        if term.get('op') == '||' and idx == 0:
                            f = f | {((canon(term['i']) if canon else term['i']), True)}
                        elif term.get('op') == '&&' and idx == 1:
                            f = f | {((canon(term['i']) if canon else term['i']), False)}
                    tcn = blk.get('tc')
                    if tcn and tcn != cond:
                        f = f | {((canon(tcn) if canon else tcn), idx == 0)}
                old = facts_in[s]
                new = f if old is None else (old & f)
                if old is None or new != old:
                    facts_in[s] = new
                    work.append(s)
        return facts_in


# --------------------------------------------------------------------------- the fact base

class Facts:
    def __init__(self, root=None):
        t0 = time.time()
        self.root = root or repo_root()
        self.dir, self.meta = ensure_facts(self.root)
        self.funcs = {}
        self.records = {}
        self.enums = {}
        self.globals = {}
        self.units = []
        for p in sorted(glob.glob(os.path.join(self.dir, '*.cpp.json'))):
            u = json.load(open(p))
            self.units.append(u.get('unit', p))
            for f in u['functions']:
                if f['key'] not in self.funcs:
                    self.funcs[f['key']] = Func(f)
            for r in u['records']:
                self.records.setdefault(r['qname'], r)
            for e in u['enums']:
                self.enums.setdefault(e['qname'], e)
            for g in u['globals']:
                self.globals.setdefault(g['qname'] + '@' + os.path.basename(g['file']), g)
        self.by_qname = {}
        self.by_name = {}
        for f in self.funcs.values():
            self.by_qname.setdefault(f.qname, []).append(f)
            self.by_name.setdefault(f.name, []).append(f)
        # virtual overriders (transitive)
        self.overriders = {}
        for r in self.records.values():
            for m in r['methods']:
                for o in m.get('overrides', []):
                    self.overriders.setdefault(o, set()).add(m['key'])
        changed = True
        while changed:
            changed = False
            for k, v in list(self.overriders.items()):
                add = set()
                for x in v:
                    add |= self.overriders.get(x, set())
                if not add <= v:
                    v |= add
                    changed = True
        self._callees = None
        self._callers = None
        self.load_s = round(time.time() - t0, 2)

    # -- lookup
    def fn(self, suffix, required=True):
        """All functions whose qualified name is `suffix` or ends with ::suffix."""
        res = [f for q, fs in self.by_qname.items() if q == suffix or q.endswith('::' + suffix) for f in fs]
        if not res and required:
            raise AnalysisBroken('anchor vanished: no function named %s' % suffix)
        return sorted(res, key=lambda f: (f.file, f.line))

    def fn1(self, suffix, nparams=None, file=None):
        res = self.fn(suffix)
        if nparams is not None:
            res = [f for f in res if len(f.params) == nparams]
        if file is not None:
            res = [f for f in res if f.file.endswith(file)]
        if len(res) != 1:
            raise AnalysisBroken('anchor ambiguous or vanished: %s (%d candidates)' % (suffix, len(res)))
        return res[0]

    def fn_rec(self, suffix):
        """The overload of `suffix` that calls itself (a thin wrapper that only starts the recursion is not the anchor)."""
        res = self.fn(suffix)
        if len(res) > 1:
            res = [f for f in res if any(c.get('k') == 'Call' and f.key in self.callee_keys(c) for c in f.walk())]
        if len(res) != 1:
            raise AnalysisBroken('anchor ambiguous or vanished: %s (%d self-recursive candidates)' % (suffix, len(res)))
        return res[0]

    def record(self, suffix):
        res = [r for q, r in self.records.items() if q == suffix or q.endswith('::' + suffix)]
        if len(res) != 1:
            raise AnalysisBroken('anchor vanished or ambiguous: record %s (%d)' % (suffix, len(res)))
        return res[0]

    def enum(self, suffix):
        res = [r for q, r in self.enums.items() if q == suffix or q.endswith('::' + suffix)]
        if len(res) != 1:
            raise AnalysisBroken('anchor vanished or ambiguous: enum %s (%d)' % (suffix, len(res)))
        return res[0]

    def glob(self, suffix, required=True, file=None):
        res = [r for q, r in self.globals.items() if (r['qname'] == suffix or r['qname'].endswith('::' + suffix))
               and (file is None or r['file'].endswith(file))]
        if len(res) != 1:
            if not required and not res:
                return None
            raise AnalysisBroken('anchor vanished or ambiguous: variable %s (%d)' % (suffix, len(res)))
        return res[0]

    def all_fields(self, rec_qname):
        """Fields of a record including those of its bases (qualified names)."""
        out = []
        seen = set()
        st = [rec_qname]
        while st:
            q = st.pop()
            if q in seen or q not in self.records:
                continue
            seen.add(q)
            r = self.records[q]
            out.extend(r['fields'])
            st.extend(r['bases'])
        return out

    def bases(self, rec_qname):
        out = []
        st = list(self.records.get(rec_qname, {}).get('bases', []))
        while st:
            q = st.pop(0)
            if q in out:
                continue
            out.append(q)
            st.extend(self.records.get(q, {}).get('bases', []))
        return out

    # -- call graph
    def callee_keys(self, call):
        ck = call.get('ck')
        if not ck:
            return []
        out = [ck]
        if call.get('virt') and not call.get('qualified'):
            out.extend(sorted(self.overriders.get(ck, ())))
        return out

    @property
    def callees(self):
        if self._callees is None:
            self._callees = {}
            self._callers = {}
            for f in self.funcs.values():
                s = set()
                for n in f.walk():
                    k = n.get('k')
                    if k == 'Call' or k == 'Construct':
                        for ck in self.callee_keys(n):
                            if ck in self.funcs:
                                s.add(ck)
                    elif k == 'Ref' and n.get('dk') == 'func' and n.get('ck') in self.funcs:
                        s.add(n['ck'])
                for ini in f.j.get('inits', []):
                    for n in walk(ini['init']) if ini.get('init') else ():
                        if n.get('k') in ('Call', 'Construct'):
                            for ck in self.callee_keys(n):
                                if ck in self.funcs:
                                    s.add(ck)
                self._callees[f.key] = s
                for c in s:
                    self._callers.setdefault(c, set()).add(f.key)
        return self._callees

    @property
    def callers(self):
        self.callees
        return self._callers

    def reach(self, keys, stop=None):
        """Transitive closure of callees from the given function keys."""
        seen = set()
        st = list(keys)
        while st:
            k = st.pop()
            if k in seen or (stop and k in stop):
                continue
            seen.add(k)
            st.extend(self.callees.get(k, ()))
        return seen

    def sccs(self):
        """Tarjan SCCs of the call graph; returns only recursive ones (size>1 or self loop)."""
        g = self.callees
        index = {}
        low = {}
        onst = set()
        st = []
        out = []
        counter = [0]
        sys.setrecursionlimit(10000)

        def strong(v):
            index[v] = low[v] = counter[0]
            counter[0] += 1
            st.append(v)
            onst.add(v)
            for w in g.get(v, ()):
                if w not in index:
                    strong(w)
                    low[v] = min(low[v], low[w])
                elif w in onst:
                    low[v] = min(low[v], index[w])
            if low[v] == index[v]:
                comp = []
                while True:
                    w = st.pop()
                    onst.discard(w)
                    comp.append(w)
                    if w == v:
                        break
                if len(comp) > 1 or v in g.get(v, ()):
                    out.append(sorted(comp))
        for v in sorted(g):
            if v not in index:
                strong(v)
        return out

    def stats(self):
        return {'units_analysed': len(self.units), 'functions': len(self.funcs),
                'call_edges': sum(len(v) for v in self.callees.values()),
                'records': len(self.records), 'enums': len(self.enums), 'globals': len(self.globals),
                'fact_key': self.meta.get('key'), 'extract_s': self.meta.get('extract_s'), 'load_s': self.load_s}


if __name__ == '__main__':
    F = Facts()
    print(json.dumps(F.stats(), indent=1))
    print('recursive SCCs:', len(F.sccs()))
