"""Late requalification of "variable-based constant" equations in Analyser::AnalyserImpl::analyseModel (shared by C03 and C17).

The generator puts every equation still typed VARIABLE_BASED_CONSTANT into computeComputedConstants(), a method that has neither voi/states/rates
nor the NLA machinery.  The analyser therefore requalifies such an equation (and its unknown) as ALGEBRAIC when another variable of the equation
is not one of the constant kinds.  Two clauses are decided here from the AST:

 Q1  decision table over the finite enum AnalyserInternalVariable::Type: the requalifying condition is evaluated for every enumerator; it must be
     true for every kind that is not a constant kind (and false for the constant kinds).
 Q2  the requalification reads the very field it writes (mType of internal variables), over a list in model order: the pass is repeated until
     nothing changes (enclosing do/while driven by a flag raised in the requalifying branch), otherwise the outcome depends on equation order.
"""
from facts import walk, render, role, AnalysisBroken

VAR_ENUM = 'libcellml::AnalyserInternalVariable::Type'
EQ_ENUM = 'libcellml::AnalyserInternalEquation::Type'


def _strip(e):
    while e is not None and e.get('k') in ('Paren', 'Cast', 'Construct', 'Temp') and len(e.get('c', [])) == 1:
        e = e['c'][0]
    return e


def _eval(e, tname, var_d, unknown):
    """3-valued evaluation of the condition for `other variable of kind tname` (None = not decidable)."""
    e = _strip(e)
    k = e.get('k')
    if k == 'Bin' and e.get('op') in ('&&', '||'):
        a, b = _eval(e['c'][0], tname, var_d, unknown), _eval(e['c'][1], tname, var_d, unknown)
        if e['op'] == '&&':
            if a is False or b is False:
                return False
            return True if (a is True and b is True) else None
        if a is True or b is True:
            return True
        return False if (a is False and b is False) else None
    if k == 'Un' and e.get('op') == '!':
        a = _eval(e['c'][0], tname, var_d, unknown)
        return None if a is None else (not a)
    if k == 'Bool':
        return bool(e.get('v'))
    if (k == 'Bin' and e.get('op') in ('==', '!=')) or (k == 'Call' and e.get('opc') in ('==', '!=')):
        op = e.get('op') or e.get('opc')
        l, r = _strip(e['c'][0]), _strip(e['c'][1])
        for x, y in ((l, r), (r, l)):
            if x.get('k') == 'Member' and x.get('q') == 'libcellml::AnalyserInternalVariable::mType' and y.get('k') == 'Ref' and y.get('dk') == 'enumc' and (y.get('q') or '').startswith(VAR_ENUM + '::'):
                if any(z.get('k') == 'Ref' and z.get('d') == var_d for z in walk(x)):
                    eq = (y['n'] == tname)
                    return eq if op == '==' else (not eq)
        # "variable is not the unknown itself": we evaluate for the OTHER variables of the equation
        names = {render(l), render(r)}
        if any(z.get('k') == 'Ref' and z.get('d') == var_d for z in walk(l)) or any(z.get('k') == 'Ref' and z.get('d') == var_d for z in walk(r)):
            if unknown in names:
                return op == '!='
    return None


def rule_requalify(F, rep, q1, q2):
    am = F.fn1('Analyser::AnalyserImpl::analyseModel')
    rep.rule(q1, 'decision table over AnalyserInternalVariable::Type: an equation keeps the type VARIABLE_BASED_CONSTANT (and is emitted in computeComputedConstants) only if every other variable it uses is of a constant kind; '
                 'the requalifying condition is evaluated for every enumerator')
    rep.rule(q2, 'the requalification of variable-based constants reads the field it writes (mType), so it is repeated until nothing changes: the loop over the equations sits in a do/while driven by a flag that the requalifying branch raises')
    anchors = []
    for i_ in am.walk():
        if i_.get('k') != 'If':
            continue
        th = role(i_, 'then')
        if th is None:
            continue
        asg = [a for a in walk(th) if a.get('k') == 'Bin' and a.get('op') == '=' and a['c'][0].get('k') == 'Member' and a['c'][1].get('k') == 'Ref' and a['c'][1].get('dk') == 'enumc']
        wv = [a for a in asg if a['c'][0].get('q') == 'libcellml::AnalyserInternalVariable::mType' and a['c'][1]['n'] == 'ALGEBRAIC']
        we = [a for a in asg if a['c'][0].get('q') == 'libcellml::AnalyserInternalEquation::mType' and a['c'][1]['n'] == 'ALGEBRAIC']
        if wv and we:
            anchors.append((i_, wv[0], we[0]))
    if len(anchors) != 1:
        raise AnalysisBroken('analyseModel: the branch that requalifies a variable-based constant as algebraic was not found (%d candidates)' % len(anchors))
    iff, wv, we = anchors[0]
    loops = [a for a in am.ancestors(iff) if a.get('k') == 'RangeFor']
    vloop = next((l for l in loops if render(role(l, 'range')).endswith('mAllVariables')), None)
    eloop = next((l for l in loops if render(role(l, 'range')).endswith('mInternalEquations')), None)
    if vloop is None or eloop is None:
        raise AnalysisBroken('analyseModel: requalification is no longer inside loops over mInternalEquations / mAllVariables')
    var_d = vloop['c'][0]['d']
    # the equation under test is a VARIABLE_BASED_CONSTANT one
    from engines import ff, case_labels_reaching, label_enum
    rc = ff(am).rendered_conds_at(iff) or set()
    labs = {label_enum(l) for l in case_labels_reaching(am, iff)[1]}
    isvbc = 'VARIABLE_BASED_CONSTANT' in labs or any(('VARIABLE_BASED_CONSTANT' in c and 'mType' in c) and ((('!=' in c) and t is False) or (('==' in c) and t is True)) for c, t in rc)
    if not isvbc:
        raise AnalysisBroken('analyseModel: the requalifying branch is not under the test "equation type is VARIABLE_BASED_CONSTANT"')
    unknown = render(wv['c'][0]['c'][0]['c'][0]) if wv['c'][0].get('c') and wv['c'][0]['c'][0].get('c') else 'unknownVariable'
    en = F.enums.get(VAR_ENUM)
    if not en:
        raise AnalysisBroken('enum AnalyserInternalVariable::Type vanished')
    cond_e = role(iff, 'cond')
    flag_plain = None
    ce = _strip(cond_e)
    if ce.get('k') == 'Ref' and ce.get('dk') == 'local':
        asg_ = [a for a in am.walk() if a.get('k') == 'Bin' and a.get('op') == '=' and a['c'][0].get('k') == 'Ref' and a['c'][0].get('d') == ce['d'] and _strip(a['c'][1]).get('k') != 'Bool' and a.get('l', 0) <= iff.get('l', 0)]
        inits_ = [v_['c'][0] for v_ in am.walk() if v_.get('k') == 'Var' and v_.get('d') == ce['d'] and v_.get('c') and _strip(v_['c'][0]).get('k') != 'Bool']
        if asg_:
            cond_e = asg_[-1]['c'][1]
            flag_plain = asg_[-1]
        elif inits_:
            cond_e = inits_[-1]
    for e_ in en['enumerators']:
        t = e_['n']
        v = _eval(cond_e, t, var_d, unknown)
        if v is None:
            raise AnalysisBroken('requalifying condition `%s` cannot be evaluated for kind %s' % (render(cond_e)[:80], t))
        const = t.endswith('CONSTANT')
        if const:
            rep.check(v is False, q1, 'other-variable-kind|%s' % t, am.where(iff),
                      'an equation whose other variable is a %s (a constant kind) is requalified as algebraic: constants would be reported and computed as algebraic variables' % t, 'stays a computed constant')
        else:
            rep.check(v is True, q1, 'other-variable-kind|%s' % t, am.where(iff),
                      'an equation that uses a variable of kind %s stays VARIABLE_BASED_CONSTANT: the generator then emits it (with what it depends on, e.g. a findRoot call) inside computeComputedConstants(), before that variable has a value' % t,
                      'requalified as algebraic')
    # Q2: fixpoint
    drivers = [a for a in am.ancestors(eloop) if a.get('k') in ('Do', 'While')]
    ok = False
    det = 'the loop over mInternalEquations that requalifies is executed once'
    for w in drivers:
        flags = {r['d'] for r in walk(role(w, 'cond')) if r.get('k') == 'Ref' and r.get('dk') == 'local' and r.get('t') == 'bool'}
        raised = [a for a in walk(role(iff, 'then')) if a.get('k') == 'Bin' and a.get('op') == '=' and a['c'][0].get('k') == 'Ref' and a['c'][0].get('d') in flags and _strip(a['c'][1]).get('k') == 'Bool' and _strip(a['c'][1]).get('v')]
        lowered = [a for a in walk(role(w, 'body')) if a.get('k') == 'Bin' and a.get('op') == '=' and a['c'][0].get('k') == 'Ref' and a['c'][0].get('d') in flags and _strip(a['c'][1]).get('k') == 'Bool' and not _strip(a['c'][1]).get('v')]
        # the flag is only ever RAISED inside the passes: a plain assignment `flag = <test of this equation>` lets an equation that needs no change wipe out an earlier requalification
        plain = [a for a in walk(role(w, 'body')) if a.get('k') == 'Bin' and a.get('op') == '=' and a['c'][0].get('k') == 'Ref' and a['c'][0].get('d') in flags and _strip(a['c'][1]).get('k') != 'Bool'
                 and any(x.get('k') in ('RangeFor', 'For') for x in am.ancestors(a) if any(y is x for y in walk(role(w, 'body'))))]
        if plain:
            det = 'the flag that drives the repetition is overwritten inside the pass (`%s`): a later equation that needs no change clears it and the repetition stops one round early' % render(plain[0])[:60]
            ok = False
            break
        if raised and lowered:
            ok = True
            det = 'repeated while `%s`' % render(role(w, 'cond'))
        elif flags:
            det = 'enclosing loop `%s` is not driven by the requalifying branch' % render(role(w, 'cond'))[:50]
    rep.check(ok, q2, 'requalification|fixpoint', am.where(eloop),
              det + ': whether a constant that depends on a requalified constant is itself requalified depends on the order in which the equations were written (z = 2*y before y = 2*x, x solved by an NLA system: z stays a computed constant)', det)
