"""Self-validation of the checkers against seeded breaking edits (thorough tier, evidence only).

Each mutant is a single textual replacement in a copy of /repo/src made under $TMPDIR (outside /repo and /verif);
the property's check is re-run on the copy and must report a violation of the named rule.  The copy is removed
afterwards.  Results never change the verdict on /repo."""
import json
import os
import shutil
import subprocess
import sys
import tempfile

VERIF = os.path.dirname(os.path.dirname(os.path.abspath(__file__)))


def load(pid=None):
    ms = json.load(open(os.path.join(VERIF, 'mutants', 'mutants.json')))
    # the confirmed changes written by independent agents (seeded/<id>/patch.diff) are replayed the same way, on a copy
    sd = os.path.join(VERIF, 'seeded')
    for d in sorted(os.listdir(sd)) if os.path.isdir(sd) else []:
        mp = os.path.join(sd, d, 'meta.json')
        pp = os.path.join(sd, d, 'patch.diff')
        if os.path.exists(mp) and os.path.exists(pp):
            meta = json.load(open(mp))
            if meta.get('obsolete_on_head'):
                continue      # the change no longer breaks the property on the repaired tree (see note_on_head in its meta.json)
            ms.append({'id': 'seed:' + d, 'property': meta['property'], 'patch': pp, 'expect_rule': meta.get('caught_by_rule', ''), 'note': 'independent seeded change'})
    return [m for m in ms if pid is None or m['property'] == pid]


def run_one(m, repo='/repo', keep=False):
    tmp = tempfile.mkdtemp(prefix='verif-mut-')
    try:
        shutil.copytree(os.path.join(repo, 'src'), os.path.join(tmp, 'src'), ignore=shutil.ignore_patterns('bindings'))
        b = os.path.join(repo, '_build', 'src')
        if os.path.isdir(b):
            os.makedirs(os.path.join(tmp, '_build', 'src', 'api', 'libcellml'))
            for rel in ('versionconfig.h', 'api/libcellml/exportdefinitions.h'):
                if os.path.exists(os.path.join(b, rel)):
                    shutil.copyfile(os.path.join(b, rel), os.path.join(tmp, '_build', 'src', rel))
        if m.get('base_patch'):
            # a behaviour-preserving restructuring (seeded_neutral/...) applied first: the edits below then break the RESTRUCTURED code
            r0 = subprocess.run(['patch', '-p1', '-s', '-d', tmp, '-i', os.path.join(VERIF, m['base_patch'])], stdout=subprocess.PIPE, stderr=subprocess.STDOUT, text=True)
            if r0.returncode != 0:
                return {'id': m['id'], 'status': 'skipped', 'why': 'base patch does not apply: ' + r0.stdout.strip()[-120:]}
        if m.get('patch'):
            r0 = subprocess.run(['patch', '-p1', '-s', '-d', tmp, '-i', m['patch']], stdout=subprocess.PIPE, stderr=subprocess.STDOUT, text=True)
            if r0.returncode != 0:
                return {'id': m['id'], 'status': 'skipped', 'why': 'patch does not apply: ' + r0.stdout.strip()[-120:]}
        edits = [] if m.get('patch') else (m.get('edits') or [{'file': m['file'], 'old': m['old'], 'new': m['new']}])
        for e in edits:
            p = os.path.join(tmp, 'src', e['file'])
            s = open(p).read()
            if s.count(e['old']) != 1:
                return {'id': m['id'], 'status': 'skipped', 'why': 'pattern occurs %d times in %s' % (s.count(e['old']), e['file'])}
            open(p, 'w').write(s.replace(e['old'], e['new']))
        env = dict(os.environ, VERIF_REPO=tmp, VERIF_EVIDENCE_DIR=os.path.join(tmp, 'evidence'))
        r = subprocess.run([sys.executable, os.path.join(VERIF, 'check'), m['property'], '--tier', 'quick'], env=env,
                           stdout=subprocess.PIPE, stderr=subprocess.STDOUT, text=True)
        out = r.stdout
        fired = [l.strip() for l in out.splitlines() if l.strip().startswith('rule ')]
        inst = [l.strip() for l in out.splitlines() if l.strip().startswith('instance ')]
        want = m['expect_rule']
        hit = any(l.startswith('rule ' + want) for l in fired) if want else bool(fired)
        status = 'detected' if (r.returncode == 1 and hit) else ('other-rule' if r.returncode == 1 else ('broken' if r.returncode == 2 else 'missed'))
        return {'id': m['id'], 'status': status, 'exit': r.returncode, 'expected_rule': want, 'rules_fired': sorted(set(x.split(':')[0] for x in fired)),
                'instances': inst[:4], 'tail': out.splitlines()[-3:] if status in ('broken', 'missed') else []}
    finally:
        if not keep:
            shutil.rmtree(tmp, ignore_errors=True)


def run_all(pid=None, jobs=8):
    from concurrent.futures import ThreadPoolExecutor
    ms = load(pid)
    with ThreadPoolExecutor(max_workers=jobs) as ex:
        return list(ex.map(run_one, ms))


if __name__ == '__main__':
    pid = sys.argv[1] if len(sys.argv) > 1 else None
    res = run_all(pid)
    for r in res:
        print(json.dumps(r))
    bad = [r for r in res if r['status'] not in ('detected', 'skipped')]
    print('%d mutants, %d detected, %d not' % (len(res), sum(r['status'] == 'detected' for r in res), len(bad)))
