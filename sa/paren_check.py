"""Obligations of E12 over all (profile, parent, side, child class)."""
from facts import render, role, AnalysisBroken
from paren import load_profiles, Model, Cls, need_parens


# AST types that never are an operand of an arithmetic/relational/logical operator: the equation node itself and the
# structural children of piecewise/diff/log/root (the validator enforces that structure)
NOT_OPERANDS = ('EQUALITY', 'PIECE', 'OTHERWISE', 'BVAR', 'DEGREE', 'LOGBASE')


def classes(M):
    out = []
    for t in M.types:
        if t in NOT_OPERANDS:
            continue
        if t == 'MINUS':
            out += [Cls(t, True), Cls(t, False), Cls(t, False, sub='TIMES'), Cls(t, False, sub='DIVIDE')]
        elif t == 'PLUS':
            out += [Cls(t, True), Cls(t, False)]
        elif t == 'CN':
            out += [Cls(t, True, False), Cls(t, True, True)]
        else:
            out.append(Cls(t))
    return out


def kind_of(M, c):
    f = M.form(c)
    if c.typ == 'PLUS' and not c.binary and f[0] in ('atom', 'call'):
        return ('transparent',)     # `code = generateCode(ast->leftChild())`: a unary plus emits nothing of its own
    return f


def roots(M, lang):
    cl = classes(M)
    R = {c.key(): set() for c in cl}
    tern = '?:' if lang == 'C' else 'if-else'
    changed = True
    while changed:
        changed = False
        for c in cl:
            f = kind_of(M, c)
            new = set()
            if f[0] == 'infix':
                new = {f[1]}
            elif f[0] == 'ternary':
                new = {tern}
            elif f[0] in ('call', 'atom'):
                new = {'neg'} if (c.typ == 'CN' and c.neg) else {'atom'}
            elif f[0] == 'uminus':
                new = {'neg'}
                # `-b*c` has the syntactic root `*`: harmless by itself, but not as the right operand of `/`
                if c.sub in ('TIMES', 'DIVIDE') and not M.paren_unary('uminus', Cls(c.sub)):
                    new |= {'*' if c.sub == 'TIMES' else '/'}
            elif f[0] == 'prefix-not':
                # missing parentheses of NOT are reported at the NOT node itself; towards its parent it is a prefix expression
                new = {'!'}
            elif f[0] == 'transparent':
                for z in cl:
                    if M.paren_unary('transparent', Cls(z.typ, z.binary, z.neg, False, z.sub)):
                        new |= {'atom'}
                    else:
                        new |= R[z.key()]
            if not new <= R[c.key()]:
                R[c.key()] |= new
                changed = True
    return R


def sminus_values(M, lang, c):
    f = kind_of(M, c)
    if f[0] == 'uminus' or (c.typ == 'CN' and c.neg):
        return [True]
    if f[0] in ('call', 'atom', 'prefix-not'):
        return [False]
    if f[0] == 'ternary' and lang == 'C':
        return [False]
    return [True, False]


def obligations(F):
    """Yields (profile, parent key, side, child key, root/issue, holds?, detail, line)."""
    profs = load_profiles(F)
    for pname, prof in sorted(profs.items()):
        lang = 'C' if pname == 'C' else 'PY'
        M = Model(F, pname, prof)
        cl = classes(M)
        R = roots(M, lang)
        atom = Cls('CI')
        for X in cl:
            fx = kind_of(M, X)
            if fx[0] == 'infix':
                tok = fx[1]
                if X.typ == 'EQUALITY' or tok in ('=', ''):
                    continue
                for side in ('left', 'right'):
                    for Y in cl:
                        for sm in sminus_values(M, lang, Y):
                            Yc = Cls(Y.typ, Y.binary, Y.neg, sm, Y.sub)
                            pl, pr, line = M.paren(X, Yc if side == 'left' else atom, Yc if side == 'right' else atom)
                            p = pl if side == 'left' else pr
                            bad = sorted(r for r in R[Y.key()] if need_parens(lang, tok, side, r)) if not p else []
                            glue = (not p) and lang == 'C' and tok == '-' and side == 'right' and sm
                            yield (pname, X.key(), tok, side, Y.key() + ('~-' if sm and len(sminus_values(M, lang, Y)) > 1 else ''), bad, glue, line)
            elif fx[0] in ('uminus', 'prefix-not'):
                tokx = 'neg' if fx[0] == 'uminus' else '!'
                fn = M.unary_fn.get(fx[0])
                for Y in cl:
                    for sm in sminus_values(M, lang, Y):
                        Yc = Cls(Y.typ, Y.binary, Y.neg, sm, Y.sub)
                        p = M.paren_unary(fx[0], Yc)
                        bad = sorted(r for r in R[Y.key()] if need_parens(lang, tokx, 'operand', r) and r != tokx) if not p else []
                        glue = (not p) and lang == 'C' and sm and fx[0] == 'uminus'
                        yield (pname, X.key(), tokx, 'operand', Y.key() + ('~-' if sm and len(sminus_values(M, lang, Y)) > 1 else ''), bad, glue, fn.line if fn else M.gc.line)
            elif fx[0] == 'ternary' and lang == 'PY' and X.typ == 'PIECEWISE':
                for Y in cl:
                    p = M.paren_piece_operand(Cls(Y.typ, Y.binary, Y.neg, False, Y.sub))
                    bad = ['if-else'] if ('if-else' in R[Y.key()] and not p) else []
                    yield (pname, 'PIECE', 'if-else', 'value', Y.key(), bad, False, M.gc.line)
                    yield (pname, 'PIECE', 'if-else', 'condition', Y.key(), bad, False, M.gc.line)
