"""E3: exception channels.  libCellML has no `throw`; exceptions can only come from standard-library primitives.
Rules: (X1) std::sto* conversions are screened by a grammar recogniser and handle out_of_range, or handle both
exception types; (X2) every container .at() is dominated by a bound / membership test of the same container, is a
lookup in an exhaustive enum table, or is screened in all callers; (X3) recognisers are not vacuous (an all_of over an
empty range accepts); (X4) no throw expression."""
import re

from facts import walk, render, role, is_call, AnalysisBroken
from engines import ff, nth_arg, receiver, path, unwrap_defarg
import tables

STO = re.compile(r'std::(__cxx11::)?sto(d|f|ld|i|l|ll|ul|ull)$')
RECOGNISERS = {
    # recogniser -> kinds of conversion it makes safe against std::invalid_argument
    'isCellMLReal': 'real', 'isCellMLBasicReal': 'real', 'canConvertToBasicDouble': 'real',
    'isCellMLInteger': 'int', 'isNonNegativeCellMLInteger': 'int', 'isCellMLExponent': 'int',
}
STO_KIND = {'d': 'real', 'f': 'real', 'ld': 'real', 'i': 'int', 'l': 'int', 'll': 'int', 'ul': 'int', 'ull': 'int'}
COVERS_BOTH = {'std::logic_error', 'std::exception', '...'}
MEMBERSHIP = {
    'isStandardUnitName': ('standardUnitsList', 'standardMultiplierList'),
    'isStandardPrefixName': ('standardPrefixList',),
}


def handlers_of(func, n):
    out = []
    child = n
    for a in func.ancestors(n):
        if a.get('k') == 'Lambda':
            break
        if a.get('k') == 'Try' and a['c'][0] is child:
            out += [h.get('q') for h in a['c'][1:]]
        child = a
    return out


def _callers(F, func):
    out = []
    for ck in F.callers.get(func.key, ()):
        g = F.funcs[ck]
        for call in g.walk():
            if call.get('k') == 'Call' and func.key in F.callee_keys(call):
                out.append((g, call))
    return out


def screened(F, func, at_node, arg, accept, depth=0):
    """Is `arg` (evaluated at at_node in func) known to satisfy one of the recogniser calls accepted by
    `accept(callee short name, rendered arg)` - here or, when arg is a parameter, in every caller?"""
    if arg is None or depth > 3:
        return None
    txt = render(arg)
    for c, t in (ff(func).conds_at(at_node) or []):
        if t and c.get('k') == 'Call' and c.get('fn') in accept and c.get('c'):
            a0 = nth_arg(c, 0)
            if a0 is not None and render(a0) == txt:
                return '%s(%s) holds here' % (c['fn'], txt)
    if arg.get('k') == 'Ref' and arg.get('dk') == 'parm':
        idx = next((i for i, p in enumerate(func.params) if p['d'] == arg['d']), None)
        cs = _callers(F, func)
        if idx is None or not cs:
            return None
        hows = []
        for g, call in cs:
            h = screened(F, g, call, unwrap_defarg(nth_arg(call, idx)), accept, depth + 1)
            if h is None:
                return None
            hows.append('%s: %s' % (g.short.split('::')[-1], h))
        return 'screened in every caller (' + '; '.join(sorted(set(hows)))[:200] + ')'
    return None


def sto_rule(F, rep, rid, exempt, only=None, require_screen=False):
    n_sites = 0
    for f in sorted(F.funcs.values(), key=lambda f: (f.file, f.line)):
        if only is not None and not only(f):
            continue
        for n in f.walk():
            if n.get('k') != 'Call':
                continue
            m = STO.match(n.get('callee', ''))
            if not m:
                continue
            n_sites += 1
            kind = STO_KIND[m.group(2)]
            arg = n['c'][0] if n.get('c') else None
            key = '%s|%s' % (f.short, render(n).split('(')[0] + '(' + render(arg) + ')')
            if key in exempt:
                rep.exempt(rid, key, exempt[key])
                continue
            hs = handlers_of(f, n)
            both = any(h in COVERS_BOTH for h in hs) or ('std::invalid_argument' in hs and 'std::out_of_range' in hs)
            if both and not require_screen:
                rep.ok(rid, key, f.where(n), 'handlers %s cover invalid_argument and out_of_range' % hs)
                continue
            if both and require_screen:
                accept = {r for r, k in RECOGNISERS.items() if k == kind}
                how = screened(F, f, n, arg, accept)
                rep.check(how is not None, rid, key, f.where(n),
                          '%s is applied to text that was not accepted by a CellML %s recogniser: std::sto* also converts text with leading blanks or trailing characters ("0.5", "0x10", " 7"), so non-grammatical text is silently accepted' % (render(n), 'integer' if kind == 'int' else 'real'),
                          'screened: ' + str(how))
                continue
            oor = 'std::out_of_range' in hs
            accept = {r for r, k in RECOGNISERS.items() if k == kind or (kind == 'real' and k == 'real')}
            how = screened(F, f, n, arg, accept)
            if how and oor:
                rep.ok(rid, key, f.where(n), 'out_of_range handled; invalid_argument excluded: ' + how)
            else:
                rep.fail(rid, key, f.where(n), '%s can throw %s: handlers=%s, recogniser screening=%s' % (
                    render(n), 'std::invalid_argument' if oor else 'std::invalid_argument/std::out_of_range', hs, how))
    # other conversion primitives: their accepted language and error channel differ from std::sto*
    for f in sorted(F.funcs.values(), key=lambda f: (f.file, f.line)):
        if only is not None and not only(f):
            continue
        for n in f.walk():
            if n.get('k') != 'Call':
                continue
            cal = n.get('callee', '') or ''
            if cal in ('std::from_chars',) or cal in ('strtol', 'strtod', 'strtoul', 'atoi', 'atof', 'atol', 'sscanf', 'std::strtol', 'std::strtod', 'std::atoi', 'std::atof'):
                n_sites += 1
                key = '%s|%s' % (f.short, cal)
                if cal != 'std::from_chars':
                    rep.fail(rid, key, f.where(n), '%s converts with %s, which skips leading blanks and reports nothing for trailing text or overflow' % (f.short, cal))
                    continue
                txt = ' '.join(render(x) for x in f.walk() if x.get('k') in ('Bin', 'Call') and ((x.get('op') or x.get('opc')) in ('==', '!=')))
                success_only = 'std::errc()' in txt or 'errc{}' in txt
                plus = "43" in txt or "'+'" in txt
                rep.check(success_only and plus, rid, key, f.where(n),
                          '%s converts with std::from_chars but %s: from_chars rejects the leading "+" that the CellML integer grammar allows and leaves the result untouched on failure' % (
                              f.short, ' and '.join(([] if success_only else ['success is not tested as `ec == std::errc()`']) + ([] if plus else ['a leading "+" is not handled']))),
                          'ec == std::errc() is required and a leading "+" is handled')
    return n_sites


def _enum_tables(F):
    out = {}
    for gq, g in F.globals.items():
        m = re.match(r'(?:const )?std::map<(libcellml::[\w:]+), ', g['t'])
        if m and g.get('init') and m.group(1) in F.enums:
            rows = tables.map_table(g)
            keys = {tables.ename(k) for k, v, node in rows}
            names = set(tables.enum_names(F.enums[m.group(1)]))
            out[(g['n'], g['file'])] = (m.group(1), names - keys)
    return out


def at_rule(F, rep, rid, exempt, enum_exempt=(), parallel=None):
    """parallel: {(function name, receiver text): (other container text, reason)} - vectors that are filled pairwise, so that an index which is in
    range for the one (a fact `i < other.size()` at the access) is in range for the other."""
    parallel = parallel or {}
    etabs = _enum_tables(F)
    n_sites = 0
    for f in sorted(F.funcs.values(), key=lambda f: (f.file, f.line)):
        if f.file.endswith('generatorprofiletools.cpp'):
            continue  # SHA-1 of the profile: fixed-size std::array indexing, not on any property path
        for n in f.walk():
            if not (n.get('k') == 'Call' and n.get('fn') == 'at' and n.get('mc')):
                continue
            n_sites += 1
            r = receiver(n)
            arg = nth_arg(n, 0)
            rt = render(r)
            at = render(arg)
            key = '%s|%s.at(%s)' % (f.short, rt, at)
            if key in exempt:
                rep.exempt(rid, key, exempt[key])
                continue
            # a file-local helper that every caller merely forwards to (`return helper(args);`) inherits the exemption the callers' own
            # element access had: the access is the same one, written once
            from engines import delegate, subst_names
            callers = [F.funcs[c] for c in F.callers.get(f.key, ()) if c in F.funcs]
            dels = [(g, delegate(F, g)) for g in callers]
            if callers and all(d is not None and d[0] is f for g, d in dels):
                keys = ['%s|%s' % (g.short, subst_names('%s.at(%s)' % (rt, at), d[1])) for g, d in dels]
                if all(k_ in exempt for k_ in keys):
                    rep.exempt(rid, key, 'forwarded to by %s, whose element access it now holds: %s' % (', '.join(g.short for g in callers), exempt[keys[0]]))
                    continue
            rc = ff(f).rendered_conds_at(n) or set()
            how = None
            par_ = parallel.get((f.name, rt))
            if par_ is not None and any(t and c == '%s < %s.size()' % (at, par_[0]) for c, t in rc):
                rep.exempt(rid, key, '%s (index bounded by %s.size())' % (par_[1], par_[0]))
                continue
            # global enum-keyed table
            if r.get('k') == 'Ref' and r.get('dk') == 'global':
                et = [(k, v) for k, v in etabs.items() if k[0] == r['n'] and (k[1] == f.file or not k[1].endswith('.cpp'))]
                if et:
                    missing = et[0][1][1] - set(enum_exempt)
                    if not missing:
                        how = 'table %s is exhaustive over %s' % (r['n'], et[0][1][0])
                    else:
                        rep.fail(rid, key, f.where(n), 'lookup in %s which lacks rows for %s' % (r['n'], sorted(missing)))
                        continue
            if how is None:
                # bound facts (a local initialised from X.size() is an alias of X.size())
                alias = {}
                for v in f.walk():
                    if v.get('k') == 'Var' and v.get('c') and render(v['c'][0]) == rt + '.size()':
                        alias[v['n']] = rt + '.size()'
                rc2 = set(rc)
                for c, t in rc:
                    for a_, full in alias.items():
                        if c.startswith(a_ + ' '):
                            rc2.add((full + c[len(a_):], t))
                for c, t in rc2:
                    if t and c == '%s + 1 < %s.size()' % (at, rt):
                        how = 'guarded by ' + c
                    if t and (c == '%s < %s.size()' % (at, rt) or c == '%s.size() > %s' % (rt, at)):
                        how = 'guarded by ' + c
                    if not t and (c == '%s >= %s.size()' % (at, rt) or c == '%s.size() <= %s' % (rt, at)):
                        how = 'guarded by not ' + c
                    if at == '0' and ((c == rt + '.empty()' and not t) or (t and c in (rt + '.size() == 1', rt + '.size() > 0', '!' + rt + '.empty()'))):
                        how = 'guarded by %s%s' % ('' if t else 'not ', c)
                    if t and (c == '%s.find(%s) != %s.end()' % (rt, at, rt) or c == '%s.count(%s) != 0' % (rt, at) or c == '%s.count(%s) > 0' % (rt, at)):
                        how = 'guarded by ' + c
                    if not t and (c == '%s.find(%s) == %s.end()' % (rt, at, rt) or c == '%s.count(%s) == 0' % (rt, at)):
                        how = 'guarded by not ' + c
            if how is None and r.get('k') == 'Ref' and r.get('n') in MEMBERSHIP['isStandardUnitName'] and arg is not None and arg.get('k') == 'Ref' and arg.get('dk') == 'parm':
                # wrapper: isStandardUnit(u) implies isStandardUnitName(u->name())
                idx = next((i for i, p_ in enumerate(f.params) if p_['d'] == arg['d']), None)
                cs_ = _callers(F, f)
                if idx is not None and cs_:
                    oks = []
                    for g, call in cs_:
                        a2 = unwrap_defarg(nth_arg(call, idx))
                        t2 = render(a2)
                        from engines import facts_x as _fx2
                        facts2 = set(ff(g).rendered_conds_at(call) or set()) | set(_fx2(F, g, call) or set())
                        good = ('isStandardUnitName(%s)' % t2, True) in facts2 or (t2.endswith('->name()') and ('isStandardUnit(%s)' % t2[:-8], True) in facts2)
                        oks.append(good)
                    if all(oks):
                        how = 'every caller establishes isStandardUnitName/isStandardUnit for the argument (%d callers)' % len(oks)
            if how is None:
                for rec_fn, tabs in MEMBERSHIP.items():
                    if r.get('k') == 'Ref' and r.get('n') in tabs:
                        h = screened(F, f, n, arg, {rec_fn})
                        if h:
                            how = h
            if how is None and arg is not None and arg.get('k') == 'Ref' and arg.get('dk') == 'parm' and r.get('k') == 'Member':
                # internal helper indexed by a caller-supplied position: every caller must establish the bound
                pass
            if how:
                rep.ok(rid, key, f.where(n), how)
            else:
                rep.fail(rid, key, f.where(n), '`%s` can throw std::out_of_range: no dominating bound/membership test of the same container (facts here: %s)' % (
                    render(n), sorted(c for c, t in rc)[:6]))
    return n_sites


def string_verdicts(f):
    """"Every character of string X satisfies P" verdicts: std::all_of(X.begin(), X.end(), P), or the same thing written as a loop
    (`for (c : X) if (!P(c)) return false;` followed by `return true`).  Yields (site node, X node, name of P)."""
    for n in f.walk():
        if n.get('k') == 'Call' and n.get('callee') in ('std::all_of',):
            a0 = n['c'][0] if n.get('c') else None
            if a0 is None or not (a0.get('k') == 'Call' and a0.get('fn') in ('begin', 'cbegin')):
                continue
            x = receiver(a0)
            if x is None or 'basic_string' not in x.get('t', ''):
                continue
            yield n, x, (render(n['c'][2]) if len(n['c']) > 2 else '')
        elif n.get('k') == 'RangeFor' and f.enclosing_lambda(n) is None:
            rng = role(n, 'range')
            while rng is not None and rng.get('k') in ('Cast', 'Construct', 'Paren') and len(rng.get('c', [])) == 1:
                rng = rng['c'][0]
            if rng is None or rng.get('k') != 'Ref' or 'basic_string' not in (rng.get('t') or ''):
                continue
            body = role(n, 'body')
            rets = [r for r in walk(body) if r.get('k') == 'Return' and r.get('c') and r['c'][0].get('k') == 'Bool' and not r['c'][0].get('v')]
            if not rets:
                continue
            # the statement after the loop returns true
            par = f.parent(n)
            sibs = par.get('c', []) if par is not None else []
            nxt = sibs[sibs.index(n) + 1] if n in sibs and sibs.index(n) + 1 < len(sibs) else None
            if nxt is None or nxt.get('k') != 'Return' or not nxt.get('c') or nxt['c'][0].get('k') != 'Bool' or not nxt['c'][0].get('v'):
                continue
            preds = [c.get('fn') for cnd, br, st in __import__('engines').enclosing_conditions(f, rets[0]) for c in walk(cnd) if c.get('k') == 'Call' and c.get('fn') and any(a is n for a in f.ancestors(st))]
            yield nxt, rng, (preds[0] if preds else '')   # facts are taken where the verdict `true` is returned


def nonvacuity_rule(F, rep, rid):
    """std::all_of over a string accepts the empty range: the ranged string must be known non-empty after its last mutation."""
    n_sites = 0
    for f in sorted(F.funcs.values(), key=lambda f: (f.file, f.line)):
        if not f.file.endswith('utilities.cpp') and not f.file.endswith('xmlnode.cpp'):
            continue
        for n, x, _pred in string_verdicts(f):
            n_sites += 1
            xn = render(x)
            key = '%s|all_of(%s)' % (f.short, xn)
            MUT = ('erase', 'replace', 'pop_back', 'clear', 'resize', 'assign', 'operator=', 'substr')
            muts = [m for m in f.walk() if m.get('k') == 'Call' and m.get('mc') and m.get('fn') in MUT[:6] and render(receiver(m)) == xn]
            muts += [m for m in f.walk() if m.get('k') == 'Call' and m.get('opc') == '=' and m.get('c') and render(m['c'][0]) == xn]
            cs = ff(f).conds_at(n) or []
            ok = None
            cfg = f.cfg_for(n)
            for c, t in cs:
                if render(c) == xn + '.empty()' and not t:
                    late = [m for m in muts if cfg.node_dominates(c, m)]
                    if not late:
                        ok = 'non-empty test of %s after its last mutation' % xn
                    else:
                        ok = None
                        why = '%s is tested non-empty before it is shortened at line(s) %s' % (xn, sorted({m.get('l') for m in late}))
            if ok is None and not muts and x.get('k') == 'Ref' and x.get('dk') == 'local':
                # unmodified local copy of another string that is known non-empty
                for v in f.walk():
                    if v.get('k') == 'Var' and v.get('d') == x['d'] and v.get('c'):
                        src = render(v['c'][0])
                        if any(render(c) == src + '.empty()' and not t for c, t in cs):
                            ok = 'unmodified copy of %s which is tested non-empty' % src
            if ok:
                rep.ok(rid, key, f.where(n), ok)
            else:
                shown = sorted(render(c) + ('' if t else ' [false]') for c, t in cs)
                rep.fail(rid, key, f.where(n), 'std::all_of over `%s` accepts the empty string: no non-empty test of `%s` holds after its last mutation (mutations at lines %s; facts: %s)' % (
                    xn, xn, sorted({m.get('l') for m in muts}), shown))
    return n_sites


def throw_rule(F, rep, rid):
    n = 0
    for f in F.funcs.values():
        for x in f.walk():
            if x.get('k') == 'Throw':
                n += 1
                rep.fail(rid, f.short + '|throw', f.where(x), 'throw expression in library code: ' + render(x)[:80])
    rep.ok(rid, 'no-throw-in-src', None, '%d functions scanned, %d throw expressions' % (len(F.funcs), n))
