"""Abstract execution of small state-changing member functions over a finite enum field (e.g. AnalyserInternalVariable::mType):
returns the transition function {enumerator -> enumerator} of the function, or raises Unknown when a statement is outside the
fragment (switch / if / ?: on the field, assignments of enumerators to the field, other statements that do not mention the field)."""
from facts import walk, render, role


class Unknown(Exception):
    pass


def _strip(e):
    while e is not None and e.get('k') in ('Paren', 'Cast', 'Construct', 'Temp') and len(e.get('c', [])) == 1:
        e = e['c'][0]
    return e


def _is_field(e, field_q):
    e = _strip(e)
    return e is not None and e.get('k') == 'Member' and e.get('q') == field_q and e.get('c') and _strip(e['c'][0]).get('k') == 'This'


def _enum(e, enum_q):
    e = _strip(e)
    if e is not None and e.get('k') == 'Ref' and e.get('dk') == 'enumc' and (e.get('q') or '').startswith(enum_q + '::'):
        return e['n']
    return None


def _cond(e, cur, field_q, enum_q):
    e = _strip(e)
    k = e.get('k')
    if k == 'Bin' and e.get('op') in ('&&', '||'):
        a, b = _cond(e['c'][0], cur, field_q, enum_q), _cond(e['c'][1], cur, field_q, enum_q)
        return (a and b) if e['op'] == '&&' else (a or b)
    if k == 'Un' and e.get('op') == '!':
        return not _cond(e['c'][0], cur, field_q, enum_q)
    if (k == 'Bin' and e.get('op') in ('==', '!=')):
        l, r = e['c']
        for x, y in ((l, r), (r, l)):
            if _is_field(x, field_q) and _enum(y, enum_q):
                eq = (_enum(y, enum_q) == cur)
                return eq if e['op'] == '==' else not eq
    raise Unknown('condition `%s`' % render(e)[:60])


def _value(e, cur, field_q, enum_q):
    e = _strip(e)
    if _enum(e, enum_q):
        return _enum(e, enum_q)
    if _is_field(e, field_q):
        return cur
    if e.get('k') == 'Cond':
        return _value(e['c'][1], cur, field_q, enum_q) if _cond(e['c'][0], cur, field_q, enum_q) else _value(e['c'][2], cur, field_q, enum_q)
    raise Unknown('value `%s`' % render(e)[:60])


def _mentions(n, field_q):
    return any(x.get('k') == 'Member' and x.get('q') == field_q for x in walk(n))


def _run(st, cur, field_q, enum_q):
    """Returns (new state, flow) with flow in ('next', 'break', 'return')."""
    if st is None:
        return cur, 'next'
    k = st.get('k')
    c = st.get('c', [])
    if k == 'Compound':
        for x in c:
            cur, fl = _run(x, cur, field_q, enum_q)
            if fl != 'next':
                return cur, fl
        return cur, 'next'
    if k == 'Bin' and st.get('op') == '=' and _is_field(c[0], field_q):
        return _value(c[1], cur, field_q, enum_q), 'next'
    if k == 'If':
        if _cond(role(st, 'cond'), cur, field_q, enum_q):
            return _run(role(st, 'then'), cur, field_q, enum_q)
        return _run(role(st, 'else'), cur, field_q, enum_q)
    if k == 'Switch':
        if not _is_field(role(st, 'cond'), field_q):
            if _mentions(st, field_q):
                raise Unknown('switch on something else than the field')
            return cur, 'next'
        body = role(st, 'body')
        items = body.get('c', []) if body.get('k') == 'Compound' else [body]
        start = None
        default = None
        for i, it in enumerate(items):
            x = it
            while x is not None and x.get('k') in ('Case', 'Default'):
                if x.get('k') == 'Case' and _enum(role(x, 'val'), enum_q) == cur and start is None:
                    start = i
                if x.get('k') == 'Default':
                    default = i
                x = role(x, 'sub')
        if start is None:
            start = default
        if start is None:
            return cur, 'next'
        for it in items[start:]:
            x = it
            while x is not None and x.get('k') in ('Case', 'Default'):
                x = role(x, 'sub')
            cur, fl = _run(x, cur, field_q, enum_q)
            if fl == 'break':
                return cur, 'next'
            if fl == 'return':
                return cur, 'return'
        return cur, 'next'
    if k == 'Break':
        return cur, 'break'
    if k == 'Return':
        return cur, 'return'
    if _mentions(st, field_q):
        raise Unknown('statement `%s`' % render(st)[:60])
    return cur, 'next'


def transition(F, f, field_q, enum_q):
    body = next((n for n in f.walk() if n.get('k') == 'Compound'), None)
    en = F.enums.get(enum_q)
    if body is None or not en:
        raise Unknown('no body / enum')
    return {e['n']: _run(body, e['n'], field_q, enum_q)[0] for e in en['enumerators']}


def dispatch_effects(F, f, is_subject, enum_q, effect_of):
    """For a function that dispatches on an enum-valued subject expression (switch or if/else-if chain, any nesting): the list of
    effects (effect_of(call) for every call statement met) executed for each enumerator.  Conditions that do not mention the subject
    must not guard any effect (Unknown otherwise)."""
    en = F.enums.get(enum_q)
    body = next((n for n in f.walk() if n.get('k') == 'Compound'), None)
    if not en or body is None:
        raise Unknown('no body / enum')

    def subj(e):
        e = _strip(e)
        return e is not None and is_subject(e)

    def cond(e, cur):
        e = _strip(e)
        k = e.get('k')
        if k == 'Bin' and e.get('op') in ('&&', '||'):
            a, b = cond(e['c'][0], cur), cond(e['c'][1], cur)
            return (a and b) if e['op'] == '&&' else (a or b)
        if k == 'Un' and e.get('op') == '!':
            return not cond(e['c'][0], cur)
        if (k == 'Bin' and e.get('op') in ('==', '!=')) or (k == 'Call' and e.get('opc') in ('==', '!=')):
            op = e.get('op') or e.get('opc')
            l, r = e['c'][0], e['c'][1]
            for x, y in ((l, r), (r, l)):
                if subj(x) and _enum(y, enum_q):
                    eq = (_enum(y, enum_q) == cur)
                    return eq if op == '==' else not eq
        raise Unknown('condition `%s`' % render(e)[:60])

    def has_effect(st):
        return any(c.get('k') == 'Call' and effect_of(c) is not None for c in walk(st))

    def run(st, cur, out):
        if st is None:
            return 'next'
        k = st.get('k')
        c = st.get('c', [])
        if k == 'Compound':
            for x in c:
                fl = run(x, cur, out)
                if fl != 'next':
                    return fl
            return 'next'
        if k == 'If':
            try:
                v = cond(role(st, 'cond'), cur)
            except Unknown:
                if has_effect(st):
                    raise
                return 'next'
            return run(role(st, 'then') if v else role(st, 'else'), cur, out)
        if k == 'Switch':
            if not subj(role(st, 'cond')):
                if has_effect(st):
                    raise Unknown('switch on something else than the subject')
                return 'next'
            body_ = role(st, 'body')
            items = body_.get('c', []) if body_.get('k') == 'Compound' else [body_]
            start = default = None
            for i, it in enumerate(items):
                x = it
                while x is not None and x.get('k') in ('Case', 'Default'):
                    if x.get('k') == 'Case' and _enum(role(x, 'val'), enum_q) == cur and start is None:
                        start = i
                    if x.get('k') == 'Default':
                        default = i
                    x = role(x, 'sub')
            if start is None:
                start = default
            if start is None:
                return 'next'
            for it in items[start:]:
                x = it
                while x is not None and x.get('k') in ('Case', 'Default'):
                    x = role(x, 'sub')
                fl = run(x, cur, out)
                if fl == 'break':
                    return 'next'
                if fl == 'return':
                    return 'return'
            return 'next'
        if k == 'Break':
            return 'break'
        if k == 'Return':
            for x in walk(st):
                if x.get('k') == 'Call' and effect_of(x) is not None:
                    out.append(effect_of(x))
            return 'return'
        if k in ('For', 'While', 'Do', 'RangeFor'):
            if has_effect(st):
                raise Unknown('effect inside a loop')
            return 'next'
        for x in walk(st):
            if x.get('k') == 'Call' and effect_of(x) is not None:
                out.append(effect_of(x))
        return 'next'
    res = {}
    for e in en['enumerators']:
        out = []
        run(body, e['n'], out)
        res[e['n']] = out
    return res
