"""Maintenance tool (not a check): adds, for every entry of tables/nullres_invariants.json that matches a site on the CURRENT /repo tree by its
text key, the name-independent canonical key (`~` + engines.render_canon of the lookup) with the same reason, so that renaming or
introducing locals/parameters/loop variables does not turn a confirmed invariant into a report.  Run it after adding invariants by hand."""
import json, os, sys
sys.path.insert(0, os.path.dirname(os.path.abspath(__file__)))
import facts, nullres
from facts import render
from engines import render_prov, render_canon

if __name__ == '__main__':
    F = facts.Facts()
    tp = os.path.join(facts.VERIF, 'sa', 'tables', 'nullres_invariants.json')
    table = json.load(open(tp))
    inv = {e['key']: e['reason'] for e in table['invariants']}
    add = {}
    for f, src, kind, deref, var in nullres.deref_sites(F):
        base = f.short + '/%d' % len(f.params)
        ks = ['%s|%s|%s' % (base, kind, (var or render(src))[:50]), '%s|%s|%s' % (base, kind, render(src)[:50]), '%s|%s|%s' % (base, kind, render_prov(f, src)[:70])]
        k4 = '%s|%s|~%s' % (f.short, kind, render_canon(f, src)[:110])
        for k in ks:
            for ik in list(inv):
                if ik == k or ik.startswith(k + '|in <'):
                    if k4 + ik[len(k):] not in inv:
                        add[k4 + ik[len(k):]] = inv[ik]
    for k, r in sorted(add.items()):
        table['invariants'].append({'key': k, 'reason': r})
        print('+', k)
    json.dump(table, open(tp, 'w'), indent=1)
    print(len(add), 'canonical keys added')
