#!/usr/bin/env python3
"""Regenerates MANIFEST.json from the table below (kept as code so that the file is always schema-valid)."""
import json
import os

HERE = os.path.dirname(os.path.abspath(__file__))

CLAIMED = {
 'C15': dict(
   technique='static analysis: enum/table exhaustiveness, who-may-write, CFG must-pass-through and fails=>logged summaries over clang AST/CFG',
   text='Decides structural necessary conditions of C15 on every path of the code: exhaustive enum->string/rule tables for every value an issue can carry; '
        'only the three LoggerImpl primitives write the issue/level vectors and keep them aligned (exactly one level index per added issue on each CFG path, '
        'bound-checked accessors); every Issue::IssueImpl::create() is described and reaches addIssue on every CFG path; the typed item holder casts to the type '
        'stored for the tag; failing importer/annotator/parser results are dominated by an added issue (interprocedural summaries). It does not execute the library, '
        'so counts after concrete call histories are not observed.',
   note='Trusted: clang 14 AST/CFG, the extractor, std containers per the C++ standard. Not decided: alignment of level indices after removeError in the middle of the list (a history argument).',
   ref='DESIGN.md section 4, C15'),

 'C01': dict(
   technique='static analysis: exception-channel screening, libxml2 acquire/release and use-after-release dataflow, call-graph SCC classification with visited-set dominance, CFG gate rules',
   text='Necessary conditions of crash freedom on every path: std::sto*/.at()/std::string(const char*)/recognisers are screened or handled and there is no throw; libxml2 resources are released once on every exit and never read after release; '
        'each of the 83 recursive call-graph cycles is classified by the step it takes and every step along a reference that input can make cyclic (units by name, imports, equivalences) is dominated by a visited/history test or sits behind a verified gate; '
        'analyser, generator, parser and flattening entry gates dominate the code they protect; document roots and import-source models are tested before use. Absence of all undefined behaviour is not claimed. Added after round-2 seeding: the text of ci/cn tokens is read through the same comment-skipping accessor by validator and analyser; number-or-reference decisions on initial values use isCellMLReal; by-name lookups (units/variable/component) are null-tested or covered by a named validator/gate invariant; library entries are non-null and inserted only on succeeding paths.',
   note='Trusted: clang AST/CFG/call graph, C++ exception specifications, libxml2 contracts named in the exemption reasons. Seven unguarded units-reference recursions are listed as known findings (replayed stack exhaustion on units a->b->a); three crash defects were repaired.',
   ref='DESIGN.md section 4, C01'),
 'C02': dict(
   technique='static analysis: writer/reader vocabulary agreement read from both ASTs, taint-style sink rule for XML escaping, field-coverage of the printer, field agreement between getter (printer) and setter (parser) per attribute, positional agreement of unit attributes, pairing rules on connections, lookup-dominates-create rule, per-document state reset',
   text='(V) the 35 (element, attribute) pairs and 13 elements written by printer.cpp equal those recognised by the CellML 2.0 branches of parser.cpp; (E) each of the 54 values spliced into an attribute is escaped, numeric or a generated id; '
        '(G) the printer reads every serialisable data member of the six entity classes; (M) for each attribute the members read by the printer and written (or used for lookup) by the parser intersect, and <unit> attributes keep their position between unitAttributes and addUnit; '
        '(O) connections keep (component_k, variable_k) together on both sides; (L) the parser creates a placeholder variable only where the lookup failed; (H) parser state is re-initialised per document; (N) doubles are written with digits10 precision; '
        '(R) an empty result is only returned for a null model or by libxml2. Necessary conditions of the round trip; equality of the re-parsed model, libxml2 and whitespace normalisation of math are not decided. Added after round-2 seeding: (E2) no ordering comparison on plain char in the text-handling files (checked against a fixture); (I1) per-child attributes are fetched with the loop index.',
   note='Trusted: clang AST/CFG; libxml2 reverses the escaping; the element a loader function reads (LOADER_ELEMENT table in sa/xmlvocab.py). The missing escaping was replayed and repaired (fix commit 125ebbf). H borrows C12.H1 and N borrows C16.P1 (same code, same rule).',
   ref='DESIGN.md section 4, C02'),
 'C03': dict(
   technique='static analysis: abstract interpretation of the generator\'s parenthesisation if-chains into a (profile, parent, side, child class) decision table checked against C/Python operator precedence; dispatch exhaustiveness and stem agreement; symbolic power-of-scaling-factor evaluation; CFG ordering',
   text='(P) The parenthesisation logic of generateOperatorCode and the unary/piecewise helpers is extracted from the AST of generator.cpp, evaluated under the flags of the C and Python profiles for every parent operator, side and child class (3054 obligations), '
        'and where no parentheses are added the syntactic root of the child\'s emitted text (a fixpoint over transparent forms) must bind tightly enough under the target language\'s precedence and associativity; `-` is never glued to text starting with `-`. '
        '(D) generateCode has a case for every AST type and emits through the profile string of the same stem. (S) the unit-scaling factor comes from Units::scalingFactor(used variable, primary variable) in analyser and generator, '
        'is applied to every CI node except the computed variable and the variable of integration, and its power (s or 1/s) at each of the five application sites is the one the equations require, evaluated symbolically through the helper, the call-site expression and scaleAst. '
        '(E) dependencies are emitted before an equation. Necessary conditions of "the generated code computes what the equations say"; no code is generated, compiled or run, and numerical results are not decided. Added later: (L) the analyser turns an equation round exactly when its right-hand side is its unknown (decision table over equation type x right-hand-side shape); (S4) scaleEquationAst walks the same child fields the analyser links through; (H) no generator state survives a call.',
   note='Trusted: clang AST/CFG; the C and Python precedence tables in sa/paren.py; MathML structure enforced by the validator (EQUALITY/PIECE/OTHERWISE/BVAR never are operands). The decision-table model was cross-validated once, as triage, against the real generator on 2577 instances (triage/paren/replay.py). '
        'Profiles with a power operator or without a conditional operator are custom profiles and are not enumerated. The 128 missing-parentheses keys found on the pinned tree were all replayed and repaired (fix commit 494beed).',
   ref='DESIGN.md section 4, C03'),
 'C04': dict(
   technique='static analysis: traversal-completeness rules over a frozen caller->callee table (full loops, no early exit, no extra guards), dedupe-set discipline, cited-rule floor, vocabulary agreement between validator and analyser',
   text='The validator traversals that reach every component, variable, reset, units and identifier are complete (full child loops, no early exit, descent under no condition but the per-entity import exemption decided on the entity itself); '
        '"reported" sets are extended only where their membership test guarded the report; every reference rule cited when the check was written is still cited by an error-level site; the MathML elements accepted by the validator are exactly those the analyser dispatches; '
        'every created issue is described and added. Necessary conditions of "every rule violation is reported"; rule predicates and false positives are not decided. Added after round-2 seeding: (W1) recursive MathML walks continue under null tests only; (S1) ids of shared import sources are entered once per object; the recogniser rules C16.N1/G1/U2 are borrowed.',
   note='Trusted: clang AST/CFG; the frozen traversal table and rule floor (sa/tables/validator_rules.json).',
   ref='DESIGN.md section 4, C04'),
 'C05': dict(
   technique='static analysis: enum-mapping exhaustiveness over the internal->public type switches, decision-table extraction of the model type from CFG branch facts, counter/list agreement and must-pass rules on index assignment, search-dominates-create rule',
   text='Decides ONLY the bookkeeping clauses of C05 that are visible in the shape of AnalyserImpl::analyseModel: every internal variable/equation type is mapped to the public type of the same stem or reported as invalid (no silent default); '
        'the model type is the documented function of (variable of integration?, NLA system?) and of (under-, over-constrained?); state/variable indices start at 0, advance once per created variable and are chosen by the same test as the list that stores the variable; '
        'one internal variable per class of connected variables (creation only after a complete equivalence search, and recorded); an equation lists all its unknown variables. '
        'The heart of the property - what each equation computes in the iterative check loop, the resulting classification, dependency wiring and independence of document order - quantifies over runtime fixpoints and is NOT decided; '
        'a change there is invisible to this check. Added after seeding: the equations of a variable are gathered by a complete loop; analyser state is re-initialised per model (clause shared with C12).',
   note='Trusted: clang AST/CFG. Partial claim on purpose: the clauses are necessary conditions of "a valid AnalyserModel is well formed"; the classification clauses of C05 have no sound static argument in reach (see DESIGN.md section 4, C05).',
   ref='DESIGN.md section 4, C05 and section 6.8'),
 'C06': dict(
   technique='static analysis: interprocedural provenance (origin) analysis of every mutated entity in the reach of flattenModel, CFG gate/loop-exit rules, subtree-traversal completeness on the call graph, accumulator-flag monotonicity, rename-then-update ordering, borrowed clone() coverage/deep-copy rules',
   text='(P) Every expression denoting an entity in the 280 functions flattenModel reaches gets a set of origins (created here / library model / import source / parameter), propagated through locals, containers, getters and function summaries; '
        'no state-changing entity method, Impl write or mutating helper may be applied to an object originating from the model passed in, from ImportSource::model() or from an import source, and the result must originate from clone(). '
        '(G) the flat model is created behind the null/import-issue/definedness gates and returned only after `while (hasImports())` ended with no early exit. (V) helpers that walk an imported component re-enter the walk for every child (whole subtree). '
        '(A) flags that accumulate over a loop are only raised. (U) renaming a units is followed by rewriting both variables and cn elements and is reported to the caller. (K) the clone() rules of C11 hold (the flat model is built from clones only). '
        'Necessary conditions of "inputs unchanged", "import-free" and "renamed consistently"; validity and numerical equivalence of the flat model are not decided. Added after round-2 seeding: descent into children is unconditional; no degenerate iterator ranges; no ascending index loop over a collection that its body shrinks; cycle-guard paths are balanced.',
   note='Trusted: clang AST/CFG/call graph; "state-changing" is computed from method bodies; navigation from a clone stays in the clone (re-checked by the borrowed C11.D1). The transient add/remove of a dummy variable on a library component in indexStackOf is accepted only while the pairing rule holds. '
        'Two defects were replayed and repaired (fix commits 86ae2d4, 1d5c1b8).',
   ref='DESIGN.md section 4, C06'),
 'C07': dict(
   technique='static analysis: history-test dominance on import recursion, interprocedural fails=>logged summaries, CFG ordering rules (fresh start, commit-on-success), dataflow slices (normalised keys, base path)',
   text='Every recursive step along an import is dominated by a history test whose history is handed on; every path on which a fetch/check function, resolveImports or flattenModel yields its failure value has added an issue; '
        'a resolution starts with removeAllIssues and clearImports; library keys are normalised on every access; a model is cached and attached to its import source only on paths that go on to succeed; '
        'the base handed to nested fetches derives from the base the importing file was fetched with. Necessary conditions; "succeeds exactly when possible" and the file system are not decided. Added after round-2 seeding: (H1) fetchComponent/fetchUnits push and pop the visit history alike; (V1) visit-everything walks descend below imported components too.',
   note='Trusted: clang AST/CFG/call graph; checkForImportCycles is a correct membership test. The missing local-cycle test in checkUnitsForCycles is keyed under C01.R1.',
   ref='DESIGN.md section 4, C07'),
 'C08': dict(
   technique='static analysis: constant tables vs an independent SI oracle; symbolic normal forms (polynomials over roles) of the three unit reducers evaluated on a generic three-level chain and compared',
   text='(T) standardUnitsList/standardMultiplierList/standardPrefixList and the enum spellings are read from their initialisers and compared value by value with the SI definitions and with each other; '
        '(M) the scale and base-exponent reducers in units.cpp, validator.cpp and analyser.cpp are abstracted from their ASTs (roles resolved by position, not by name) and must yield the same polynomial as the algebra of units '
        'on T->R->Q->standard unit, under the property\'s exponent-1 restriction; every recursive call must carry the inherited exponent and per-child accumulators must be fresh; (G) null/compatibility gates precede the reductions. '
        'No scaling factor is computed by running the library; the relation axioms on doubles are not decided. Added after round-2 seeding: (P1) cycle-guard paths of the reducers are popped on every non-failing path.',
   note='Trusted: sa/tables/si.json (hand-written from the SI brochure), clang AST. If a reducer is restructured beyond the accumulate/recursive-call shape the anchors vanish (exit 2). Two reducer defects were replayed and repaired.',
   ref='DESIGN.md section 4, C08'),
 'C09': dict(
   technique='static analysis: interprocedural null-state summaries of pointer parameters, dominance-based bound checks, container/parent pairing with element identity, who-may-write, acyclicity gate',
   text='Over the object model and the services that accept entities: no exported method dereferences a shared_ptr parameter (directly or through callee summaries) without a dominating null test; element accesses by a size_t '
        'parameter are dominated by index < size of the same container; only the owning classes write the child containers; every insertion sets the parent of the inserted element and detaches it from its previous parent; '
        'every erase/overwrite clears the parent of the erased element itself; pointer lookups try identity first; setParent in Component::doAddComponent is reached only where the component is neither the new parent nor its ancestor; '
        'equivalences are linked/unlinked on both sides. Necessary conditions on every path; the heap after arbitrary histories and use-after-free are not explored. Added after round-2 seeding: (S1) both members of a VariablePair are consulted wherever one is.',
   note='Trusted: clang AST/CFG; assumes entities are only created through create(). Fourteen crashes/ownership defects found by these rules were replayed and repaired (fix commits listed in known_findings.json).',
   ref='DESIGN.md section 4, C09'),
 'C10': dict(
   technique='static analysis: per-return field-coverage via CFG dominance and branch facts over the doEquals chain; size-symmetry and direct-children rules',
   text='For every doEquals in the Entity hierarchy and every CFG path to a result that can be true: every attribute field of the class was read on this side, '
        'every direct base doEquals was consulted, getters called on the other object cover the same fields, every child collection has its size compared for equality, '
        'children are matched against direct children only, UnitDefinition fields all compared (doubles through areNearlyEqual), null/cast results tested. '
        'Necessary conditions of "sees every attribute" and of symmetry; reflexivity/transitivity on values are not executed. Added after round-2 seeding: one-to-one child matching keeps its candidates container across the outer loop; paired null tests address the same attribute on both sides.',
   note='Trusted: clang AST/CFG; getter-covers-field is computed from getter bodies. Known finding: variable counts are not compared (pinned by Equality.parseMath).',
   ref='DESIGN.md section 4, C10'),
 'C11': dict(
   technique='static analysis: read/write field coverage of clone() over the Impl hierarchy, deep-copy (no shared entity pointer) and id-carrying-API rules on the call graph',
   text='For every clone(): each attribute field of the Impl hierarchy (own and inherited, presence flags included) is read on the original and written on the copy through a method whose body writes that field; '
        'entity-typed values handed to the copy are clone()/create() results or belong to the copy; the copy gets no parent; Model::clone reaches an API that carries mapping/connection ids. '
        'Necessary conditions of a faithful, independent copy; serialisation equality is not executed. Added after round-2 seeding: the helpers of Model::clone re-create every recorded equivalence (the call depends on null tests only).',
   note='Trusted: clang AST; setter-writes-field computed from setter bodies. Known finding: clones share the ImportSource (pinned by Clone.modelWithImportedItems). Three clone defects were repaired (fix commits).',
   ref='DESIGN.md section 4, C11'),
 'C12': dict(
   technique='static analysis: set/restore pairing of process-global libxml2 setters on all exits, dominance of removeAllIssues, unconditional re-initialisation of service state, effect/provenance scan of read-only services',
   text='Every libxml2 process-global setter call is paired with a restore of the saved value on every exit; each entry point empties its issue list before any issue can be added; every service Impl field written during a call is '
        'unconditionally re-initialised before its first use in that call (documented state exempt, each with its reason); no state-changing entity method is called from Printer/Validator/Analyser/Generator on an object that was not created inside the service. '
        'Necessary conditions of purity; equality of results across histories is not executed. Added after round-2 seeding: (S1) every function-local static and namespace-scope variable is const (one model-independent cache exempted by name).',
   note='Trusted: clang AST/CFG/call graph; "state-changing" is computed from method bodies. Known findings: three unrestored xmlKeepBlanksDefault calls (pinned by Parser.parseResets).',
   ref='DESIGN.md section 4, C12'),
 'C13': dict(
   technique='static analysis: must-precede (dominance) of the index refresh before any id generation over the call graph, id-kind set agreement between sibling traversals, control-dependence of setters on empty tests, must-pass bookkeeping',
   text='Every exported Annotator method from which an id can be generated refreshes the identifier index on every path before the first generation, and replacing the model invalidates the cached index; the six traversals that list, hash, '
        'assign, clear, print-reserve and validate identifiers visit the same thirteen id kinds; ids are assigned only under the matching empty test; each generated id is indexed before the next generation. '
        'Necessary conditions of completeness, non-destructiveness and uniqueness; concrete id strings are not generated. Added after round-2 seeding: children read inside an index loop are read with that loop\'s index.',
   note='Trusted: clang AST/CFG/call graph; id kinds are recognised by getter/setter name and static receiver type. Two stale-index defects were replayed and repaired.',
   ref='DESIGN.md section 4, C13'),
 'C14': dict(
   technique='static analysis: path-sensitive issue-level dataflow keyed on the 1.x mode flag, dominance of the strict-mode gate, value-consulted and fresh-object-per-iteration rules over parser.cpp',
   text='In strict mode a non-2.0 root is refused with an error before any child is loaded; on every path from the creation of an issue to addIssue on which the parser is known to be in 1.x mode, sites shared with the 2.0 path carry Level::MESSAGE; '
        'legacy names are recognised in the 1.x branches; the 1.x interface attributes are read by value; every entity created while looping over XML children is created inside the iteration that adds it; 1.x MathML goes through the namespace rewrite. '
        'Necessary conditions; equality with the equivalent 2.0 model is not executed. Added after round-2 seeding: flags gathered over XML children are only raised inside the loop.',
   note='Trusted: clang AST/CFG. The "none" interface defect was replayed and repaired.',
   ref='DESIGN.md section 4, C14'),
 'C16': dict(
   technique='static analysis: recogniser non-vacuity, grammar terminals read from the AST, exception-channel screening of std::sto*, use-site branch rules',
   text='Decides on all paths of the recognisers/conversions: no acceptance through std::all_of over an empty string; sign/digit/point/e-marker sets and count bounds equal the CellML grammar; '
        'every std::sto* call handles out_of_range and is screened by the recogniser of its kind here or in every caller; parser/validator use sites convert only on the accepting branch and add an issue on the rejecting one; '
        'doubles are printed with digits10 precision by default. The accepted language is not enumerated by execution. Added after round-2 seeding: conversion primitives other than std::sto* (from_chars, strto*, ato*) are judged for their accepted language and error channel.',
   note='Trusted: C++ standard exception specification of std::sto*; recogniser-accepted text is convertible. Restructuring the recognisers (e.g. to a regex) makes anchors vanish: exit 2, not a verdict.',
   ref='DESIGN.md section 4, C16'),
 'C17': dict(
   technique='static analysis: stem-linked agreement of flag writer / getter / emitter, guard-set and argument agreement between sibling emitters (interface vs implementation) from CFG branch facts',
   text='For each of the 24 helper flags the analyser branch (MathML element, AST type), the AnalyserModel getter and the generator emitter agree by stem and guard; for every family with an interface and an implementation form both emitters '
        'run under the same model predicates with the same profile arguments; count placeholders are replaced by the model counts and info tables iterate full lists; both emitters return {} for missing/invalid models. '
        'Necessary conditions of "declared exactly when defined" and "helpers emitted exactly when used"; generated code is not compiled. Added after round-2 seeding: the kind of the model is consulted only through modelHasOdes()/modelHasNlas().',
   note='Trusted: clang AST/CFG; relies on the naming convention that ties need<X>Function, mNeed<X>Function, <x>FunctionString, Type::<X> and MathML <x> together (a rename makes anchors vanish: exit 2).',
   ref='DESIGN.md section 4, C17'),
 'C18': dict(
   technique='static analysis: type-level counting argument on the memo key, null-state dataflow, visited-set rule on the recursive search',
   text='The memo of AnalyserModel::areEquivalentVariables must be keyed injectively by both addresses (pair/tuple key or >=128 bits), decided from the field type and the dataflow of the key expression; '
        'the utility null-tests its arguments; the recursive equivalence search carries, tests and extends a visited list before recursing. Whether a particular run collides is not observed. Added after round-2 seeding: every verdict returned is the search result or a verdict stored for exactly this pair; const queries of Variable write no data member.',
   note='Trusted: clang types. The original defect (64-bit Cantor pairing) was replayed with controlled addresses and repaired (fix commits d93d680, fb127cf).',
   ref='DESIGN.md section 4, C18'),
 'C19': dict(
   technique='static analysis: predicate coverage, loop-direction rule for index-removing loops, branch-fact rules on the single interface definition, traversal completeness',
   text='Model::clean consults every attribute of the documented emptiness definitions and removes by index only in descending loops; the required interface has one definition shared by fixVariableInterfaces and the validator, '
        'reports failure for parentless/unrelated equivalences, and fixVariableInterfaces writes only where the current interface does not suffice, visits every variable and returns the accumulated verdict; linkUnits/hasUnlinkedUnits visit the whole tree and exempt exactly standard units. '
        'Necessary conditions; the post-conditions are not executed against the validator. Added after round-2 seeding: permitsInterfaceType compares whole strings.',
   note='Trusted: clang AST/CFG; the documented definition of "empty" in model.h.',
   ref='DESIGN.md section 4, C19'),
 'C20': dict(
   technique='static analysis: path rule on issue levels, null-state rules, dataflow rule on user-supplied dependencies, paired-update rule on the analysis loop state, ordering rules on the code generator',
   text='The three external-variable diagnostics are messages on every path; null external variables / variables are refused or skipped; user-supplied dependencies are translated to their primary variable before they are stored; '
        'the pass counter and the NLA-mode flag of the analysis loop advance together; generated code emits all dependencies before an equation, removes it from the work list before recursing and reads external values only through the callback string. '
        'Necessary conditions; which variables become external, NLA pruning and run-time values are not decided. Added after round-2 seeding: hasExternalVariables derives from this model\'s internal variables; isStateRateBased marks an equation before descending; the variable of integration is unmarked where it is reported as unusable.',
   note='Trusted: clang AST/CFG. The paired-update rule (A1) is specific to the present shape of the analysis loop: if the loop is restructured its anchors vanish (exit 2). One crash defect (null external variable) was repaired.',
   ref='DESIGN.md section 4, C20'),
}

ROUND3 = {
 'C01': 'libxml2 is called without XML_PARSE_HUGE/NOENT/DTDLOAD (L1); contradiction rule: a local pointer the function itself compares with nullptr is dereferenced only under a non-null fact (N3).',
 'C03': 'loadProfile assigns every flag and string of the profile for both languages (F1); decision table over AnalyserInternalVariable::Type for the late requalification of variable-based constants (Q1) and the requalification runs to a fixpoint (Q2).',
 'C04': 'a flag gathered over a loop is only raised inside it (A1); the cycle guard of the units reduction pops what it pushed on every path (P1).',
 'C05': 'a variable is recorded once per role: add<Role>Variable tests the list it extends (D1); self-recursive functions of analyser.cpp do not pass their own arguments on unchanged (R1).',
 'C06': 'after a units transfer the referring unit child takes the name of the very object that was transferred (U2).',
 'C07': 'every function that pushes an epoch on a shared import history pops it on every non-error path (H2).',
 'C08': 'Units::compatible can answer true only where isDefined() held for both arguments (G2).',
 'C09': 'an iterator into a child container is not used after a call that can change that container (V1).',
 'C10': 'decision table of the early-return guards of ulpsDistance over {finite, infinite, NaN}^2 (U2).',
 'C11': 'clone() reads children of an index loop with the loop index (X1) and hands entities, not names, to the copy (D3).',
 'C12': 'the generator calls state-changing AST methods only on nodes it created (M2).',
 'C13': 'index builders record every non-empty id, independent of where the entity sits (L1); the change-detection hash is stored only where the index was just rebuilt (H1).',
 'C14': '1.x namespace removal runs for every math element (M2); 1.x loaders test ids through isIdAttribute (I1); flags gathered over node loops are only raised (A2).',
 'C16': 'recogniser shape: sign set and single optional sign of isCellMLInteger, no fallback conversion in stringToDouble.',
 'C17': 'every emitted method gets its body through generateMethodBodyCode (B1); what stays in computeComputedConstants is decided by a decision table over the variable kinds (Q1) and a fixpoint (Q2).',
 'C18': 'the equivalence memo is touched only by AnalyserModel::areEquivalentVariables (K2); an explicit work-list form of the search is accepted and must not abandon pending entries (V1).',
 'C19': 'determineInterfaceType is called for every variable with equivalences (I5); an accumulated verdict is never overwritten by a plain assignment (L3).',
 'C20': 'the unmarking of the variable of integration is unconditional within its branch (V1); internalVariable() lookups in the marking loop are dominated by the same-model test (F1).',
}

ROUND4 = {
 'C01': 'shared stacks handed down by reference are balanced on every path (S1); the visited list of the equivalence search only grows (R1); every self-recursive call makes progress (R2); owner lookups and MathML child lookups are dereferenced only under a test or a recorded invariant (N1 with sa/tables/nullres_invariants.json); every branch of the validator\'s MathML dispatch checks arity (A1).',
 'C02': 'the 1.x transformation helpers run only under the 1.x mode (T1); sibling cursors advance only inside their loop (K1); complete walks, accumulating flags (W1, A1).',
 'C03': 'the unit reducers are executed symbolically per loop iteration, so the polynomial check no longer depends on statement placement (C08.M1 borrowed); removal of units clears their parent (C09.P3/P4 borrowed).',
 'C04': 'membership decided from the entity, not its name (B1); same-owner comparisons need a non-null side (C09.Q1 borrowed); complete walks, visit-all, loop-carried locals (W1, Y1, L1).',
 'C05': 'type transitions of internal variables by abstract execution over the enum: idempotent, STATE only from INITIALISED (M1); an overconstrained equation marks all its variables (O1); W1, Y1, S1, A1.',
 'C06': 'loop-carried locals (S1), complete walks (W1), no text search for markup (X1), accumulating flags (A2).',
 'C07': 'history-carrying functions do not call history-less wrappers on their own kind of entity (D1); no text search for markup (X1); W1, Y1, A1.',
 'C08': 'where the factor is applied (C03.S1-S3 borrowed); visit-all over connected variables (Y1); loop-carried locals (S1).',
 'C09': 'owner lookups (O1); "same owner" needs a non-null side (Q1); detach before attach (P2 order); null-flow follows lambda bodies.',
 'C10': 'children are matched one-to-one: every child-matching loop erases the matched partner (O1).',
 'C11': 'complete walks (W1); indexStackOf of an equivalent variable only for variables of the same model.',
 'C12': 'the reset at the start of a call empties all four logger vectors and clears imports below imported components too (C15.L3, C07.W1 borrowed).',
 'C13': 'an already-recorded flag is raised only under a test that mentions the entity being recorded (L2); W1, Y1, S1, A1.',
 'C14': 'the two legacy namespaces are removed independently (N2); sibling cursors (K1); loop-carried locals (S1).',
 'C15': 'setLevel only on a fresh issue that has not been added yet (V1); L3 recognises swap/assignment as emptying a vector.',
 'C16': 'number-or-reference decisions use the grammar recogniser (C01.V2 borrowed).',
 'C17': 'generateDoubleCode sees both exponent letters (D1); loadProfile assigns everything (C03.F1 borrowed); loop-carried locals and visit-all in generator.cpp (S1, Y1).',
 'C18': 'the equivalence queries of Variable read only the equivalence lists (F1).',
 'C19': 'removed units lose their parent, same-owner comparisons (C09.P3/P4/Q1 borrowed); W1, Y1, A1.',
 'C20': 'gates inside analyseModel test errorCount() only (G2); external unknowns are pruned before NLA siblings are determined (N2).',
}

ROUND5 = {
 'C01': 'the AST pass runs only behind the error gate (G4b); nullable kinds nonCommentChildNode / variable.units; helper-aware acquire/release.',
 'C02': 'std::unique only after a sort (U1, fixture); per-call state also for helper objects and the printer (H1).',
 'C03': 'swap table case "derivative of another variable" (L1); parent links of linked AST nodes (T1).',
 'C04': 'silent early returns skip only related checks (E1); XML NameStartChar/NameChar decision table against the specification (N1).',
 'C05': 'requalification rules shared with C03/C17 (Q1, Q2: the fixpoint flag is only raised); no internalVariable() lookup after publication (U2).',
 'C06': 'dependencies listed before dependants in unitsUsed (O1); references corrected on the transferred object (O2).',
 'C07': 'nested fetches do not depend on whether the import source already holds a model (R1).',
 'C08': 'per-call state of the analyser (H1 borrowed); areEqual compares through 15-digit text (E1).',
 'C09': 'same-owner comparisons through locals (Q1); index re-bounded before a positional insert (I2); no take-while loops (T1, fixture).',
 'C10': 'absolute epsilon shortcut of areNearlyEqual (U3); doEquals compares a member with the plain getter of the same member (G1).',
 'C11': 'plain getters (G1); detach-before-attach also in the doAddComponent overrides (C09.P1/P2 borrowed).',
 'C12': 'no ordering of objects by address (A1, fixture); flattenModel works on and returns a copy (C06.P1/P2 borrowed).',
 'C13': 'no id read into a local is overwritten unread (V1).',
 'C14': 'element tests name their element (E2); the 1.x mode is decided per document (H1 borrowed).',
 'C16': 'exact child counts of token elements (E1); comment-skipping accessors in the analyser (C01.V1 borrowed).',
 'C17': 'setters store unconditionally (M1); an analysed variable keeps its component alive (K1); modelHasOdes derives from the model type (O1).',
 'C18': 'no take-while loop over equivalence lists (T1, fixture).',
 'C19': 'same-owner comparisons (C09.Q1 borrowed).',
 'C20': 'the decision to generate a dependency first is made from the dependency (G3); C17.O1 borrowed.',
}
ROUND6 = {
 'C01': 'std::regex patterns applied to input text have no unbounded repetition (X6, fixture); a path-keeping bool function answers true only after its membership test (R3); nullable results followed through assignments, weak_ptr::lock() included; gates cited by invariants are evaluated here too (C08.G1/G2, C17.G1 borrowed).',
 'C02': 'element text read in a loop is consumed before the next sibling overwrites it (N1); table of libxml2 text getters and their escaping behaviour (X2).',
 'C03': 'doubles written into code at full precision (N1); scaling factor for every kind of variable (S3); helper functions defined exactly when used (C17.N1-N3 borrowed).',
 'C05': 'an internal variable is re-pointed only inside its equivalence class (V1); the two legitimate writes of mNlaSystemIndex (N1).',
 'C06': 'markup search also for prefixed names (X1); the importer never re-points an import (F2).',
 'C07': "fetchUnits/fetchComponent do not answer true because a model was left by an earlier pass (R1); shared path stacks balanced (P1).",
 'C08': 'shared path stacks of units.cpp balanced (P2); C03.S3 borrowed.',
 'C09': 'weak_ptr::lock() results (O1) with a checked discharge when every caller holds the locked object; gates cited by invariants (C08.G1/G2 borrowed).',
 'C10': 'a partner is fetched only at an index taken from the unmatched candidates (M2); named bool locals and nested null pairings understood (F1, P1).',
 'C11': 'doEquals reads only what clone() copies (Q1); first-iteration push pairing checked instead of exempted (K1).',
 'C12': 'absolute uses of own issue counters only behind a clearing entry point (K1); identity before equality in lookups (C09.P5 borrowed).',
 'C13': 'annotator loops walk what the model holds now, not a stored list (M1); "advance until unused" decided from the exit fact.',
 'C14': 'both arms of a version test hand the same collected values to the same method (B1, fixture).',
 'C15': 'the gates of the internal analysis are issue-counter tests only (G1); fail-log keys carry the whole chain of conditions.',
 'C16': 'every positive verdict of isCellMLReal is made of the parts of the real grammar (G1).',
 'C17': 'GeneratorProfile::setProfile reloads unconditionally (M1); emission conditions seen through a local lambda/helper (N3).',
 'C18': 'every recursive walk over equivalences consults a visited set (C01.R1 borrowed); null-safety of the utility from call-graph summaries (N1).',
 'C19': 'hierarchy predicates reach no structural comparison (B1); clean(): all positive verdicts consult every attribute, descent before verdict (C1).',
 'C20': 'dependencies resolved through a one-key-per-variable map (D1), cleaned unconditionally (D2), recorded external dependencies re-resolved by class (D3).',
}
ROUND7 = {
 'C01': 'count/index child helpers use the same predicate (A2); branches of the validator that admit child elements validate them (A1); standard-name precedence in guard-less walks over unit references (U1); invariants inherited through call sites of split-off helpers.',
 'C02': 'regex repetition depth (C01.X6 borrowed).',
 'C03': 'dependencies resolved per variable (C20.D1 borrowed).',
 'C04': 'per-call state of the validator (H1); binary search only over a sorted range (U1, fixture).',
 'C05': 'equivalence alone decides a hit in internalVariable() (K1); append-only containers asked for their size across iterations (S1).',
 'C06': 'unique keys in the name-clash map (N1); creation-to-exit must-pass of the import loop (G1).',
 'C07': 'no inserting subscript on the importer library (M1); fail-log candidates adopt split-off helpers.',
 'C08': 'no constant non-zero scaling factor (G3).',
 'C09': 'containers reached through a local reference (P3); exemptions follow helpers split off from the exempt function (Q1).',
 'C12': 'library queries do not insert (C07.M1 borrowed); site names of known findings stable under helper extraction (G1).',
 'C13': 'a value-returning walker uses what the descent returns (W1); index rebuild recognised wherever it is written (R2).',
 'C14': 'fix-up loops after the encapsulation reach the whole tree (T1); the 1.x attribute collector removes nothing (M2).',
 'C15': 'replacing the annotated model invalidates the index (C13.R2 borrowed); forwarded issue descriptions recognised structurally (I2).',
 'C16': 'conversion behind its recogniser wherever it is written (U2).',
 'C17': '"=" versus "==" decided by <math> alone (E1); early returns in emitting functions imply that no later helper is needed (N4, truth table).',
 'C18': 'no ownership test in the network search (F1); const queries write nothing, also through a local pimpl alias (Q1).',
 'C19': 'every equivalence is looked at unless both flags are known (I6); hasUnlinkedUnits answers only what linkUnits acts on (U1); aggregate-agnostic result flags (I1).',
 'C20': 'two-slot profile strings: setter and getter select the same member (S1); per-call state of the generator (H1).',
}

ROUND8 = {
 'C02': 'a fallback that follows a search loop tests the result, not the searched collection (F1, fixture).',
 'C03': 'a loop that handles each group once remembers every group, not only the last (D2, fixture); pimpl pointers held in locals are spelled out (S2/S3).',
 'C04': 'an early return before the continuation of a recursive walk is guarded by null tests only (W1, also through a local lambda).',
 'C05': 'the internal-to-public equation type mapping is read from a looked-up table as well as from a switch (T2).',
 'C07': 'library key precedence: the URL as written wins whenever it is a key (K2, 4-row decision table).',
 'C08': 'reducer parameters named by type and ordinal; a thin wrapper around the recursion is followed (M1-M3).',
 'C09': 'the answer of an accessor that reports "no such index" with a sentinel is not used as a key (K1, fixture).',
 'C10': 'no whole-sequence comparison in the equality family (O2, fixture); helpers split off from doEquals belong to it (M1/M2); the NaN/infinity guards are found where they are written (U2).',
 'C11': 'equals() does not depend on an order that clone() does not preserve (C10.O2 borrowed).',
 'C18': 'the neighbour accessors agree: live entries only, scan not bounded by the requested index (A1).',
 'C20': 'index form of the dependency loop: runs from 0 to dependencyCount() in steps of one (G1).',
}

NOT_YET = {}

NA = {}


def main():
    props = [json.loads(l) for l in open(os.path.join(HERE, 'properties.jsonl'))]
    checks = []
    na = []
    for p in props:
        pid = p['id']
        if pid in CLAIMED:
            c = CLAIMED[pid]
            checks.append({
                'property_id': pid,
                'quick_cmd': './check %s --tier quick' % pid,
                'thorough_cmd': './check %s --tier thorough' % pid,
                'evidence_file': 'evidence/%s.json' % pid,
                'replay_cmd_template': './check --replay {path}',
                'engine': 'sa',
                'level_claimed': {'category': 'other', 'text': c['text'] + (' Added after round-3 seeding: ' + ROUND3[pid] if pid in ROUND3 else '') + (' Added after round-4 seeding: ' + ROUND4[pid] if pid in ROUND4 else '') + (' Added after round-5 seeding and the independent false-alarm study: ' + ROUND5[pid] if pid in ROUND5 else '') + (' Added after round-6 seeding and the second false-alarm study: ' + ROUND6[pid] if pid in ROUND6 else '') + (' Added after round-7 seeding and the third false-alarm study (restructurings): ' + ROUND7[pid] if pid in ROUND7 else '') + (' Added when the seeds left undecided and the lost anchors of the third study were revisited: ' + ROUND8[pid] if pid in ROUND8 else ''), 'design_ref': c['ref']},
                'level_note': c['note'],
                'technique': c['technique'],
            })
        elif pid in NA:
            na.append({'property_id': pid, 'reason': NA[pid]})
        else:
            na.append({'property_id': pid, 'reason': NOT_YET.get(pid, 'no static check registered yet in this tree (engine under construction; see DESIGN.md section 4 for the planned clauses)')})
    man = {
        'version': 1,
        'setup_cmd': './setup.sh',
        'hooks': {'guard': 'LIBCELLML_VERIF', 'enable': 'no hooks are needed: every rule reads unmodified source', 'baseline_off_cmd': 'ctest --test-dir /repo/_build -j8 --timeout 900',
                  'source_commits': [], 'add_only': True},
        'engines': [{'name': 'sa', 'path': 'sa/', 'serves_properties': sorted(CLAIMED),
                     'kind_free_text': 'libTooling fact extractor (clang 14 AST + CFG per function, whole library) + Python rule engines (tables, dominance/must-pass, dataflow, call-graph summaries)'}],
        'checks': checks,
        'not_applicable': na,
        'notes': 'All checks are static: they parse /repo/src with clang on every run (cached by content hash) and never execute libCellML. exit 2 + ANALYSIS-BROKEN means an anchor vanished or a rule matched fewer instances than its confirmed floor; it is neither a pass nor a violation.',
    }
    json.dump(man, open(os.path.join(HERE, 'MANIFEST.json'), 'w'), indent=1)
    print('MANIFEST.json: %d checks, %d not applicable' % (len(checks), len(na)))


if __name__ == '__main__':
    main()
