// Triage replay (not a registered check, and outside what the static C05 check decides): the classification of a variable
// depends on the order of the equations in the document.
#include <iostream>
#include <libcellml>
using namespace libcellml;
static std::string model(bool eFirst)
{
    std::string eqE = "<apply><eq/><ci>e</ci><ci>d</ci></apply>";
    std::string eqD = "<apply><eq/><ci>d</ci><apply><plus/><ci>b</ci><ci>c</ci></apply></apply>";
    return std::string("<?xml version=\"1.0\" encoding=\"UTF-8\"?><model xmlns=\"http://www.cellml.org/cellml/2.0#\" name=\"m\"><component name=\"k\">"
           "<variable name=\"b\" units=\"dimensionless\" initial_value=\"1\"/><variable name=\"c\" units=\"dimensionless\" initial_value=\"2\"/>"
           "<variable name=\"d\" units=\"dimensionless\"/><variable name=\"e\" units=\"dimensionless\"/>"
           "<math xmlns=\"http://www.w3.org/1998/Math/MathML\">") + (eFirst ? eqE + eqD : eqD + eqE) + "</math></component></model>";
}
int main()
{
    std::string res[2];
    for (int i = 0; i < 2; ++i) {
        auto m = Parser::create()->parseModel(model(i == 0));
        auto a = Analyser::create();
        a->analyseModel(m);
        std::cout << (i == 0 ? "e=d first : " : "d=b+c first: ") << "issues " << a->issueCount() << " type " << AnalyserModel::typeAsString(a->model()->type());
        for (size_t v = 0; v < a->model()->variableCount(); ++v) {
            auto av = a->model()->variable(v);
            std::cout << " " << av->variable()->name() << "=" << AnalyserVariable::typeAsString(av->type());
            if (av->variable()->name() == "e") res[i] = AnalyserVariable::typeAsString(av->type());
        }
        std::cout << "\n";
    }
    std::cout << (res[0] == res[1] ? "same classification\n" : "DEFECT: classification of e depends on document order\n");
    return res[0] == res[1] ? 0 : 1;
}
