#include <libcellml/importer.h>
#include <libcellml/importsource.h>
#include <libcellml/model.h>
#include <libcellml/parser.h>
#include <libcellml/units.h>
#include <libcellml/variable.h>
#include <libcellml/component.h>
#include <cstdio>
#include <cstdlib>
static const char *lib = "<?xml version=\"1.0\"?><model xmlns=\"http://www.cellml.org/cellml/2.0#\" name=\"lib\">"
  "<units name=\"a\"><unit units=\"b\"/></units><units name=\"b\"><unit units=\"a\"/></units>"
  "<component name=\"c1\"><variable name=\"x\" units=\"a\"/></component></model>";
static const char *mainm = "<?xml version=\"1.0\"?><model xmlns=\"http://www.cellml.org/cellml/2.0#\" xmlns:xlink=\"http://www.w3.org/1999/xlink\" name=\"m\">"
  "<import xlink:href=\"lib.cellml\"><units units_ref=\"a\" name=\"ia\"/></import></model>";
int main(int argc, char **argv)
{
    int op = atoi(argv[1]);
    auto p = libcellml::Parser::create();
    auto L = p->parseModel(lib);
    if (op == 0) { bool d = L->component(0)->isDefined(); std::printf("component isDefined %d\n", d); }
    if (op == 1) {
        auto M = p->parseModel(mainm);
        auto imp = libcellml::Importer::create();
        imp->addModel(L, "lib.cellml");
        bool r = imp->resolveImports(M, "");
        std::printf("resolveImports %d issues %zu\n", r, imp->issueCount());
        auto f = imp->flattenModel(M);
        std::printf("flatten %p issues %zu\n", (void *)f.get(), imp->issueCount());
    }
    std::printf("op %d returned\n", op);
    return 0;
}
