#!/usr/bin/env python3
"""Regenerate the seeding prompts for a new round (triage tool, not part of any registered check).
usage: make_seed_prompts.py <round-dir> [<template-prompt>]
Writes <round-dir>/<pid>.property.json and <round-dir>/<pid>.PROMPT.md for every property; the list of earlier changes is taken from
/verif/seeded/*/meta.json (summary, first 260 characters).  The agents see nothing else from /verif."""
import json, os, re, sys, glob
rd = sys.argv[1]
tmpl = open(sys.argv[2] if len(sys.argv) > 2 else os.path.join(os.path.dirname(os.path.abspath(__file__)), 'prompts', 'seed_template.md')).read()
head = tmpl.split('\n\nEarlier seeders already produced')[0]
props = [json.loads(l) for l in open('/verif/properties.jsonl')]
nxt = {}
prev = {}
for d in sorted(glob.glob('/verif/seeded/C*-*')):
    b = os.path.basename(d)
    pid, n = b.split('-')
    nxt[pid] = max(nxt.get(pid, 0), int(n))
    try:
        m = json.load(open(d + '/meta.json'))
    except Exception:
        continue
    prev.setdefault(pid, []).append((int(n), (m.get('summary') or '')[:260].replace('\n', ' ')))
os.makedirs(rd + '/out', exist_ok=True)
for p in props:
    pid = p['id']
    json.dump({k: p[k] for k in p if k in ('id', 'statement', 'quantifier', 'why_tests_cant', 'anchors', 'title')}, open('%s/%s.property.json' % (rd, pid), 'w'), indent=1)
    a, b = nxt.get(pid, 0) + 1, nxt.get(pid, 0) + 2
    h = head.replace('/tmp/seed5', rd).replace('C07-9', '%s-%d' % (pid, a)).replace('C07-10', '%s-%d' % (pid, b)).replace('C07', pid)
    lst = '\n'.join('- ' + s for _, s in sorted(prev.get(pid, [])))
    h += ('\n\nEarlier seeders already produced the following changes for this property. Yours must use DIFFERENT mechanisms and different functions/files, '
          'and explore other clauses of the property statement (read the whole statement and the anchors; prefer places and source files the earlier changes did not touch, '
          'and prefer kinds of mistakes not in this list). Think about what a careful reviewer reading only the diff would NOT notice. Prefer changes that are NOT a single dropped '
          'guard or flipped comparison: e.g. a refactoring that moves work into a helper and loses one case, a cache or memo that is not invalidated, a container swapped for another '
          'with different ordering/uniqueness, a loop bound computed before the container changes, state shared between two calls, an API used with a subtly different overload, '
          'a default argument changed, a new early-out "optimisation" that is right for almost every input:\n' + lst + '\n')
    open('%s/%s.PROMPT.md' % (rd, pid), 'w').write(h)
print('wrote prompts for', len(props), 'properties in', rd)
