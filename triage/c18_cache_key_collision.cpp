#include <libcellml/analyser.h>
#include <libcellml/analysermodel.h>
#include <libcellml/parser.h>
#include <libcellml/variable.h>
#include <libcellml/model.h>
#include <sys/mman.h>
#include <cstdio>
#include <cstdlib>
#include <new>
static void *g_next = nullptr;
void *operator new(std::size_t n)
{
    if (g_next != nullptr && n == sizeof(libcellml::Variable)) {
        void *want = g_next;
        g_next = nullptr;
        void *page = mmap((void *)((uintptr_t)want & ~0xfffUL), 4096, PROT_READ | PROT_WRITE, MAP_PRIVATE | MAP_ANONYMOUS | MAP_FIXED_NOREPLACE, -1, 0);
        if (page == MAP_FAILED) { perror("mmap"); std::abort(); }
        return want;
    }
    void *p = std::malloc(n);
    if (!p) throw std::bad_alloc();
    return p;
}
void operator delete(void *p) noexcept
{
    uintptr_t a = (uintptr_t)p;
    if (a >= (1UL << 35) && a < (1UL << 46) && (a & 0xfff) == 0) return; // our fixed pages: leak
    std::free(p);
}
void operator delete(void *p, std::size_t) noexcept { operator delete(p); }
static libcellml::VariablePtr at(uintptr_t addr, const char *name)
{
    g_next = (void *)addr;
    auto v = libcellml::Variable::create(name);
    std::printf("%s at %p\n", name, (void *)v.get());
    return v;
}
int main()
{
    const char *txt = "<?xml version=\"1.0\"?><model xmlns=\"http://www.cellml.org/cellml/2.0#\" name=\"m\"><component name=\"c\"><variable name=\"a\" units=\"dimensionless\"/>"
                      "<math xmlns=\"http://www.w3.org/1998/Math/MathML\"><apply><eq/><ci>a</ci><cn xmlns:cellml=\"http://www.cellml.org/cellml/2.0#\" cellml:units=\"dimensionless\">1</cn></apply></math></component></model>";
    auto model = libcellml::Parser::create()->parseModel(txt);
    auto analyser = libcellml::Analyser::create();
    analyser->analyseModel(model);
    auto am = analyser->model();
    std::printf("analyser model valid: %d\n", am->isValid());
    uintptr_t v1 = 1UL << 36, v2 = 1UL << 45;
    uintptr_t w1 = v1 + (1UL << 40) + (1UL << 39), w2 = v2 - (1UL << 39);
    auto A = at(v1, "A"), B = at(v2, "B"), C = at(w1, "C"), D = at(w2, "D");
    libcellml::Variable::addEquivalence(A, B);
    bool ab = am->areEquivalentVariables(A, B);   // true, cached
    bool cd = am->areEquivalentVariables(C, D);   // C and D are unrelated: must be false
    std::printf("areEquivalentVariables(A,B)=%d  areEquivalentVariables(C,D)=%d  (C->hasEquivalentVariable(D,true)=%d)\n", ab, cd, C->hasEquivalentVariable(D, true));
    return cd ? 1 : 0;
}
