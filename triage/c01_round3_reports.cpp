// Triage replay (not a registered check): crash candidates reported while seeding round 3.
#include <cstdlib>
#include <iostream>
#include <libcellml>
using namespace libcellml;
static std::string wrap(const std::string &body)
{
    return "<?xml version=\"1.0\" encoding=\"UTF-8\"?><model xmlns=\"http://www.cellml.org/cellml/2.0#\" xmlns:cellml=\"http://www.cellml.org/cellml/2.0#\" name=\"m\">" + body + "</model>";
}
int main(int argc, char **argv)
{
    int op = atoi(argv[1]);
    std::string txt;
    switch (op) {
    case 0: txt = wrap("<component name=\"c\"><variable name=\"x\" units=\"dimensionless\"/><math xmlns=\"http://www.w3.org/1998/Math/MathML\"><ci>x</ci></math></component>"); break;
    case 1: txt = wrap("<component name=\"c\"><variable name=\"x\" units=\"dimensionless\"/><variable name=\"y\" units=\"dimensionless\" initial_value=\"1\"/><math xmlns=\"http://www.w3.org/1998/Math/MathML\"><apply><eq/><ci>x</ci><ci><![CDATA[y]]></ci></apply></math></component>"); break;
    case 2: txt = wrap("<component name=\"c\"><![CDATA[hello]]></component>"); break;
    case 3: txt = wrap("<component name=\"c\"><variable name=\"x\" units=\"dimensionless\"/><math xmlns=\"http://www.w3.org/1998/Math/MathML\"><cn cellml:units=\"dimensionless\">1</cn></math></component>"); break;
    }
    auto p = Parser::create();
    auto m = p->parseModel(txt);
    std::cout << "parser issues " << p->issueCount() << "\n";
    auto v = Validator::create(); v->validateModel(m); std::cout << "validator issues " << v->issueCount() << "\n";
    for (size_t i = 0; i < v->issueCount() && i < 3; ++i) std::cout << "  " << v->issue(i)->description() << "\n";
    auto a = Analyser::create(); a->analyseModel(m); std::cout << "analyser issues " << a->issueCount() << "\n";
    std::cout << Printer::create()->printModel(m).size() << " characters printed\n";
    std::cout << "op " << op << " returned\n";
    return 0;
}
