// Triage replay (not a registered check): the validator's visit history is not popped after following imported units,
// so a later sibling import from a file that occurs as a *source* further down the first chain is reported as a cycle.
#include <iostream>
#include <libcellml>
using namespace libcellml;
int main()
{
    const char *LIB2 = R"(<?xml version="1.0" encoding="UTF-8"?>
<model xmlns="http://www.cellml.org/cellml/2.0#" name="lib2"><units name="x"><unit prefix="milli" units="second"/></units></model>)";
    const char *LIB1 = R"(<?xml version="1.0" encoding="UTF-8"?>
<model xmlns="http://www.cellml.org/cellml/2.0#" name="lib1">
  <import xmlns:xlink="http://www.w3.org/1999/xlink" xlink:href="lib2.cellml"><units units_ref="x" name="a0"/></import>
  <units name="b0"><unit units="metre"/></units>
</model>)";
    const char *MAIN = R"(<?xml version="1.0" encoding="UTF-8"?>
<model xmlns="http://www.cellml.org/cellml/2.0#" name="main">
  <import xmlns:xlink="http://www.w3.org/1999/xlink" xlink:href="lib1.cellml"><units units_ref="a0" name="a"/><units units_ref="b0" name="b"/></import>
  <units name="u"><unit units="a"/><unit units="b"/></units>
  <component name="c"><variable name="v" units="u"/></component>
</model>)";
    auto parser = Parser::create();
    auto lib2 = parser->parseModel(LIB2);
    auto lib1 = parser->parseModel(LIB1);
    auto model = parser->parseModel(MAIN);
    auto importer = Importer::create();
    importer->addModel(lib1, "lib1.cellml");
    importer->addModel(lib2, "lib2.cellml");
    std::cout << "resolveImports " << importer->resolveImports(model, "") << " issues " << importer->issueCount() << "\n";
    auto v = Validator::create();
    v->validateModel(model);
    std::cout << "validator issues " << v->issueCount() << "\n";
    for (size_t i = 0; i < v->issueCount(); ++i) std::cout << "  " << v->issue(i)->description() << "\n";
    auto flat = importer->flattenModel(model);
    std::cout << "flatten " << (flat ? "succeeded" : "failed") << ", importer issues " << importer->issueCount() << "\n";
    for (size_t i = 0; i < importer->issueCount(); ++i) std::cout << "  " << importer->issue(i)->description() << "\n";
    return v->issueCount() == 0 ? 0 : 1;
}
