#include <libcellml/component.h>
#include <libcellml/model.h>
#include <libcellml/reset.h>
#include <libcellml/units.h>
#include <libcellml/variable.h>
#include <cstdio>
int main()
{
    auto c1 = libcellml::Component::create("c"), c2 = libcellml::Component::create("c");
    auto r = libcellml::Reset::create(); r->setOrder(1);
    c2->addReset(r);
    auto m1 = libcellml::Model::create("m"), m2 = libcellml::Model::create("m");
    m2->addUnits(libcellml::Units::create("u"));
    auto d1 = libcellml::Component::create("d"), d2 = libcellml::Component::create("d");
    d2->addVariable(libcellml::Variable::create("v"));
    std::printf("resets: c1==c2 %d c2==c1 %d | units: m1==m2 %d m2==m1 %d | variables: d1==d2 %d d2==d1 %d\n", c1->equals(c2), c2->equals(c1), m1->equals(m2), m2->equals(m1), d1->equals(d2), d2->equals(d1));
    return (c1->equals(c2) != c2->equals(c1)) || (m1->equals(m2) != m2->equals(m1));
}
