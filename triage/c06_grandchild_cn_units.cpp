// Triage replay (not a registered check): flattening renames clashing imported units in variables of every
// descendant component, but in <cn cellml:units="..."> only for the imported component and its direct children.
#include <iostream>
#include <libcellml>
using namespace libcellml;
static const char *LIB = R"(<?xml version="1.0" encoding="UTF-8"?>
<model xmlns="http://www.cellml.org/cellml/2.0#" xmlns:cellml="http://www.cellml.org/cellml/2.0#" name="lib">
  <units name="u"><unit prefix="milli" units="second"/></units>
  <component name="c"><variable name="a" units="u" initial_value="1"/></component>
  <component name="c1"><variable name="b" units="u" initial_value="1"/></component>
  <component name="c2">
    <variable name="x" units="u"/>
    <math xmlns="http://www.w3.org/1998/Math/MathML"><apply><eq/><ci>x</ci><cn cellml:units="u">3</cn></apply></math>
  </component>
  <encapsulation><component_ref component="c"><component_ref component="c1"><component_ref component="c2"/></component_ref></component_ref></encapsulation>
</model>)";
static const char *MAIN = R"(<?xml version="1.0" encoding="UTF-8"?>
<model xmlns="http://www.cellml.org/cellml/2.0#" name="main">
  <import xmlns:xlink="http://www.w3.org/1999/xlink" xlink:href="lib.cellml"><component component_ref="c" name="imp"/></import>
  <units name="u"><unit units="metre"/></units>
  <component name="local"><variable name="y" units="u" initial_value="2"/></component>
</model>)";
int main()
{
    auto parser = Parser::create();
    auto lib = parser->parseModel(LIB);
    auto model = parser->parseModel(MAIN);
    auto importer = Importer::create();
    importer->addModel(lib, "lib.cellml");
    importer->resolveImports(model, "");
    std::cout << "importer issues after resolve: " << importer->issueCount() << "\n";
    auto flat = importer->flattenModel(model);
    if (flat == nullptr) { std::cout << "flatten failed\n"; return 2; }
    auto printer = Printer::create();
    std::cout << printer->printModel(flat) << "\n";
    auto validator = Validator::create();
    validator->validateModel(flat);
    std::cout << "validator issues on the flat model: " << validator->issueCount() << "\n";
    for (size_t i = 0; i < validator->issueCount(); ++i) std::cout << "  " << validator->issue(i)->description() << "\n";
    auto c2 = flat->component("c2", true);
    bool stale = c2 && c2->math().find("units=\"u\"") != std::string::npos && c2->variable(0)->units()->name() != "u";
    std::cout << (stale ? "DEFECT: grandchild cn keeps the stale units name while its variable was renamed\n" : "ok\n");
    return stale ? 1 : 0;
}
