#include <regex>
#include <string>
#include <cstdio>
#include <cctype>
#include <random>
std::string removeXmlDeclarations(const std::string &text)
{
    // Remove everything that matches "<?xml", some whitespace, "version=" and
    // then whatever follows on that line up to its last "?>".
    // Note: this is done by hand rather than using a regular expression since
    //       the latter uses an amount of stack that grows with the length of
    //       the line.

    static const std::string declarationStart = "<?xml";
    static const std::string version = "version=";
    static const std::string declarationEnd = "?>";

    std::string res;
    size_t pos = 0;
    size_t start = text.find(declarationStart, pos);

    while (start != std::string::npos) {
        size_t i = start + declarationStart.size();

        while ((i < text.size()) && (isspace(static_cast<unsigned char>(text[i])) != 0)) {
            ++i;
        }

        size_t end = std::string::npos;

        if ((i > start + declarationStart.size()) && (text.compare(i, version.size(), version) == 0)) {
            size_t from = i + version.size();
            size_t lineEnd = text.find_first_of("\n\r", from);

            if (lineEnd == std::string::npos) {
                lineEnd = text.size();
            }

            if (lineEnd >= from + declarationEnd.size()) {
                end = text.rfind(declarationEnd, lineEnd - declarationEnd.size());

                if ((end != std::string::npos) && (end < from)) {
                    end = std::string::npos;
                }
            }
        }

        if (end != std::string::npos) {
            res.append(text, pos, start - pos);

            pos = end + declarationEnd.size();
        } else {
            res.append(text, pos, start + 1 - pos);

            pos = start + 1;
        }

        start = text.find(declarationStart, pos);
    }

    res.append(text, pos, std::string::npos);

    return res;
}


int main(){
  static const std::regex xmlDeclaration(R"|(<\?xml[[:space:]]+version=.*\?>)|");
  const char *tok[] = {"<?xml", " ", "\n", "\r", "\t", "version=", "?>", "x", "<", ">", "?", "\"1.0\"", "<?xm", "version", "=", "<?xml version=\"1.0\"?>"};
  std::mt19937 rng(12345);
  long bad=0, n=300000;
  for (long k=0;k<n;++k){
    std::string s; int len = rng()%12;
    for(int i=0;i<len;++i) s += tok[rng()%16];
    std::string a = std::regex_replace(s, xmlDeclaration, ""), b = removeXmlDeclarations(s);
    if (a!=b){ if(bad<5) printf("DIFF for [%s]\n regex [%s]\n hand  [%s]\n", s.c_str(), a.c_str(), b.c_str()); ++bad; }
  }
  printf("%ld strings, %ld differences\n", n, bad);
  return bad!=0;
}
