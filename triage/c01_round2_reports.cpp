// Triage replay (not a registered check): crash candidates reported while seeding round 2.
#include <cstdlib>
#include <iostream>
#include <libcellml>
using namespace libcellml;
static ModelPtr parse(const std::string &body)
{
    return Parser::create()->parseModel("<?xml version=\"1.0\" encoding=\"UTF-8\"?><model xmlns=\"http://www.cellml.org/cellml/2.0#\" xmlns:cellml=\"http://www.cellml.org/cellml/2.0#\" name=\"m\">" + body + "</model>");
}
int main(int argc, char **argv)
{
    int op = atoi(argv[1]);
    switch (op) {
    case 0: { // a unit that references units that do not exist
        auto m = parse("<units name=\"u\"><unit units=\"missing\"/></units><component name=\"c\"><variable name=\"x\" units=\"u\"/></component>");
        std::cout << "component isDefined: " << m->component(0)->isDefined() << "\n";
        std::cout << "model isDefined: " << m->isDefined() << "\n";
        break; }
    case 1: { // e-notation exponent out of range as a power exponent
        auto m = parse("<component name=\"c\"><variable name=\"x\" units=\"dimensionless\"/><variable name=\"y\" units=\"dimensionless\" initial_value=\"2\"/>"
                       "<math xmlns=\"http://www.w3.org/1998/Math/MathML\"><apply><eq/><ci>x</ci><apply><power/><ci>y</ci><cn cellml:units=\"dimensionless\" type=\"e-notation\">1<sep/>400</cn></apply></apply></math></component>");
        auto v = Validator::create(); v->validateModel(m); std::cout << "validator issues " << v->issueCount() << "\n";
        auto a = Analyser::create(); a->analyseModel(m); std::cout << "analyser issues " << a->issueCount() << "\n";
        break; }
    case 2: { // a comment before the identifier inside <ci>
        auto m = parse("<component name=\"c\"><variable name=\"x\" units=\"dimensionless\"/><variable name=\"y\" units=\"dimensionless\" initial_value=\"2\"/>"
                       "<math xmlns=\"http://www.w3.org/1998/Math/MathML\"><apply><eq/><ci>x</ci><ci><!-- c -->y</ci></apply></math></component>");
        auto v = Validator::create(); v->validateModel(m); std::cout << "validator issues " << v->issueCount() << "\n";
        auto a = Analyser::create(); a->analyseModel(m); std::cout << "analyser issues " << a->issueCount() << "\n";
        break; }
    case 3: { // a null model put into the importer's library by the user
        auto m = parse("<import xmlns:xlink=\"http://www.w3.org/1999/xlink\" xlink:href=\"lib.cellml\"><component component_ref=\"c\" name=\"i\"/></import>");
        auto imp = Importer::create();
        std::cout << "addModel(null) " << imp->addModel(nullptr, "lib.cellml") << "\n";
        std::cout << "resolveImports " << imp->resolveImports(m, "") << " issues " << imp->issueCount() << "\n";
        break; }
    }
    std::cout << "op " << op << " returned\n";
    return 0;
}
