// Triage replay (not a registered check): what is generated for dx/dt = x ?
#include <iostream>
#include <libcellml>
using namespace libcellml;
int main(int argc, char **argv)
{
    const char *txt = R"(<?xml version="1.0" encoding="UTF-8"?>
<model xmlns="http://www.cellml.org/cellml/2.0#" xmlns:cellml="http://www.cellml.org/cellml/2.0#" name="m">
  <component name="c">
    <variable name="t" units="second"/>
    <variable name="x" units="dimensionless" initial_value="1"/>
    <math xmlns="http://www.w3.org/1998/Math/MathML">
      <apply><eq/><apply><diff/><bvar><ci>t</ci></bvar><ci>x</ci></apply><ci>x</ci></apply>
    </math>
  </component>
</model>)";
    auto model = Parser::create()->parseModel(txt);
    auto v = Validator::create(); v->validateModel(model);
    std::cout << "validator issues " << v->issueCount() << "\n";
    auto a = Analyser::create(); a->analyseModel(model);
    std::cout << "analyser issues " << a->issueCount() << " type " << AnalyserModel::typeAsString(a->model()->type()) << "\n";
    for (size_t i = 0; i < a->issueCount(); ++i) std::cout << "  " << a->issue(i)->description() << "\n";
    auto g = Generator::create(); g->setModel(a->model());
    std::string code = g->implementationCode();
    auto p = code.find("void computeRates");
    std::cout << code.substr(p == std::string::npos ? 0 : p, 400) << "\n";
    return 0;
}
