#include <libcellml/parser.h>
#include <libcellml/model.h>
#include <libcellml/validator.h>
#include <libcellml/units.h>
#include <libcellml/issue.h>
#include <cstdio>
int main()
{
    const char *txt = "<?xml version=\"1.0\"?><model xmlns=\"http://www.cellml.org/cellml/2.0#\" name=\"m\">"
      "<units name=\"R\"><unit units=\"metre\" prefix=\"milli\"/></units>"
      "<units name=\"A\"><unit units=\"R\" exponent=\"2\"/></units>"
      "<units name=\"Bu\"><unit units=\"metre\" exponent=\"3\"/><unit units=\"dimensionless\" multiplier=\"1e-6\"/></units>"
      "<component name=\"c1\"><variable name=\"a\" units=\"A\" interface=\"public\"/></component>"
      "<component name=\"c2\"><variable name=\"b\" units=\"Bu\" interface=\"public\"/></component>"
      "<connection component_1=\"c1\" component_2=\"c2\"><map_variables variable_1=\"a\" variable_2=\"b\"/></connection></model>";
    auto p = libcellml::Parser::create();
    auto model = p->parseModel(txt);
    auto A = model->units("A"), B = model->units("Bu");
    double sf = libcellml::Units::scalingFactor(A, B, false);
    std::printf("parser issues %zu; compatible %d equivalent %d scalingFactor(A,Bu)=%g\n", p->issueCount(), libcellml::Units::compatible(A, B), libcellml::Units::equivalent(A, B), sf);
    auto v = libcellml::Validator::create();
    v->validateModel(model);
    std::printf("validator issues %zu\n", v->issueCount());
    for (size_t i = 0; i < v->issueCount(); ++i) std::printf("  %s\n", v->issue(i)->description().c_str());
    return (sf == 1.0 && v->issueCount() != 0) ? 1 : 0;
}
