// Triage replay (not a registered check): the variable of integration marked as an external variable.
#include <iostream>
#include <libcellml>
using namespace libcellml;
int main()
{
    const char *txt = R"(<?xml version="1.0" encoding="UTF-8"?>
<model xmlns="http://www.cellml.org/cellml/2.0#" xmlns:cellml="http://www.cellml.org/cellml/2.0#" name="m">
  <component name="c">
    <variable name="t" units="second"/>
    <variable name="x" units="dimensionless" initial_value="1"/>
    <math xmlns="http://www.w3.org/1998/Math/MathML">
      <apply><eq/><apply><diff/><bvar><ci>t</ci></bvar><ci>x</ci></apply><cn cellml:units="dimensionless">1</cn></apply>
    </math>
  </component>
</model>)";
    auto model = Parser::create()->parseModel(txt);
    auto a = Analyser::create();
    a->addExternalVariable(AnalyserExternalVariable::create(model->component(0)->variable("t")));
    a->analyseModel(model);
    std::cout << "issues " << a->issueCount() << " type " << AnalyserModel::typeAsString(a->model()->type()) << " hasExternalVariables " << a->model()->hasExternalVariables() << "\n";
    for (size_t i = 0; i < a->issueCount(); ++i) std::cout << "  [" << int(a->issue(i)->level()) << "] " << a->issue(i)->description() << "\n";
    std::cout << "voi: " << (a->model()->voi() ? a->model()->voi()->variable()->name() : "none") << "; states " << a->model()->stateCount() << "; variables:";
    bool bad = false;
    for (size_t v = 0; v < a->model()->variableCount(); ++v) {
        auto av = a->model()->variable(v);
        std::cout << " " << av->variable()->name() << "=" << AnalyserVariable::typeAsString(av->type());
        if (av->variable()->name() == "t") bad = true;
    }
    std::cout << "\n" << (bad ? "DEFECT: the variable of integration is also listed among the variables\n" : "ok\n");
    return bad ? 1 : 0;
}
