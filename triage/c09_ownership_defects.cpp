#include <libcellml/annotator.h>
#include <libcellml/types.h>
#include <libcellml/component.h>
#include <libcellml/model.h>
#include <libcellml/units.h>
#include <libcellml/variable.h>
#include <cstdio>
#include <cstdlib>
#include <sys/wait.h>
#include <unistd.h>
template <class Fn> static int holds(const char *what, Fn fn)
{
    fflush(stdout);
    pid_t p = fork();
    if (p == 0) { int r = fn(); fflush(stdout); _exit(r); }
    int st = 0; waitpid(p, &st, 0);
    bool ok = WIFEXITED(st) && WEXITSTATUS(st) == 0;
    std::printf("%-66s %s\n", what, ok ? "ok" : (WIFSIGNALED(st) ? "CRASHES" : "VIOLATED"));
    return ok ? 0 : 1;
}
int main()
{
    int bad = 0;
    bad += holds("Annotator::item(id, 1) when the id occurs once", [] {
        auto m = libcellml::Model::create("m"); auto c = libcellml::Component::create("c"); c->setId("x"); m->addComponent(c);
        auto a = libcellml::Annotator::create(); a->setModel(m);
        for (size_t i = 1; i < 2000; ++i) { auto it = a->item("x", i); if (it != nullptr && it->type() != libcellml::CellmlElementType::UNDEFINED) return 1; }
        return 0; });
    bad += holds("replaceComponent(0, c) where c is listed by another model", [] {
        auto m1 = libcellml::Model::create("m1"), m2 = libcellml::Model::create("m2");
        auto c = libcellml::Component::create("c"), d = libcellml::Component::create("d");
        m1->addComponent(c); m2->addComponent(d);
        m2->replaceComponent(0, c);
        std::printf("   m1 lists c: %d, m2 lists c: %d, c->parent()==m2: %d\n", m1->containsComponent(c, false), m2->containsComponent(c, false), c->parent() == m2);
        return (m1->componentCount() == 1 && m2->componentCount() == 1 && m1->component(0) == c && m2->component(0) == c) ? 1 : 0; });
    bad += holds("replaceUnits(0, u) where u is listed by another model", [] {
        auto m1 = libcellml::Model::create("m1"), m2 = libcellml::Model::create("m2");
        auto u = libcellml::Units::create("u"), w = libcellml::Units::create("w");
        m1->addUnits(u); m2->addUnits(w);
        m2->replaceUnits(0, u);
        return (m1->unitsCount() == 1 && m1->units(0) == u && m2->units(0) == u) ? 1 : 0; });
    bad += holds("c->addComponent(c) on a component that has a parent", [] {
        auto m = libcellml::Model::create("m"); auto c = libcellml::Component::create("c"); m->addComponent(c);
        bool r = c->addComponent(c);
        std::printf("   returned %d, c lists itself: %d, c->parent()==c: %d, model lists c: %d\n", r, c->componentCount() > 0 && c->component(0) == c, c->parent() == c, m->componentCount() == 1);
        return (c->componentCount() > 0 && c->component(0) == c) ? 1 : 0; });
    bad += holds("removeVariable(v2) with an equal sibling v1 listed first", [] {
        auto c = libcellml::Component::create("c"); auto v1 = libcellml::Variable::create("v"), v2 = libcellml::Variable::create("v");
        c->addVariable(v1); c->addVariable(v2);
        c->removeVariable(v2);
        std::printf("   remaining child is v2: %d; v1 still has parent: %d; v2 has parent: %d\n", c->variable(0) == v2, v1->hasParent(), v2->hasParent());
        return (c->variable(0) == v2 || !v1->hasParent() || v2->hasParent()) ? 1 : 0; });
    std::printf("%d violated\n", bad);
    return bad;
}
