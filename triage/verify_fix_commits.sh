#!/bin/bash
# Triage helper: verify every /repo fix commit in <range> on its own: scratch worktree configured like the baseline build
# (bindings, coverage, warnings-as-errors as in /repo/_build/CMakeCache.txt), full build, triage/suite_check.py.
# usage: verify_fix_commits.sh <rev range, e.g. 1928ece..HEAD>
W=/tmp/fixverify
git -C /repo worktree add -q --detach $W HEAD || exit 2
ARGS=$(grep -E "^(LIBCELLML_[A-Z_]+|CMAKE_BUILD_TYPE)[:=]" /repo/_build/CMakeCache.txt | sed -E 's/^([A-Z_]+):[A-Z]+=(.*)$/-D\1=\2/' | tr '\n' ' ')
for h in $(git -C /repo log --reverse --format=%h "$1"); do
  (cd $W && git checkout -q --detach $h && cmake -G Ninja -S . -B _build $ARGS >/dev/null 2>&1)
  r=$(python3 /verif/triage/suite_check.py $W/_build 2>&1 | tail -2 | tr '\n' ' ')
  echo "$h $r (own worktree) :: $(git -C /repo log --format=%s -1 $h)" | tee -a /verif/triage/fix_commits_suite.log
done
git -C /repo worktree remove --force $W
echo ALL-DONE-3 | tee -a /verif/triage/fix_commits_suite.log
