// Triage replay (not a registered check): an <import id="imp"> with two children is reported as a duplicated identifier.
#include <iostream>
#include <libcellml>
using namespace libcellml;
int main()
{
    const char *txt = R"(<?xml version="1.0" encoding="UTF-8"?>
<model xmlns="http://www.cellml.org/cellml/2.0#" name="m">
  <import xmlns:xlink="http://www.w3.org/1999/xlink" xlink:href="lib.cellml" id="imp">
    <units units_ref="u" name="u1"/>
    <units units_ref="v" name="v1"/>
    <component component_ref="c" name="c1"/>
    <component component_ref="d" name="d1"/>
  </import>
</model>)";
    auto p = Parser::create();
    auto m = p->parseModel(txt);
    std::cout << "parser issues " << p->issueCount() << "\n";
    auto v = Validator::create();
    v->validateModel(m);
    std::cout << "validator issues " << v->issueCount() << "\n";
    for (size_t i = 0; i < v->issueCount(); ++i) std::cout << "  " << v->issue(i)->description() << "\n";
    return v->issueCount() == 0 ? 0 : 1;
}
