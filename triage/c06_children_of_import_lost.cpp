// Triage replay (not a registered check): children that the importing model attaches to an import component.
// flattenComponent() moves them with `for (i = 0; i < component->componentCount(); ++i) copy->addComponent(component->component(i))`;
// addComponent() removes the child from `component`, so every second child is skipped and lost.
#include <iostream>
#include <libcellml>
using namespace libcellml;
int main()
{
    const char *LIB = R"(<?xml version="1.0" encoding="UTF-8"?>
<model xmlns="http://www.cellml.org/cellml/2.0#" name="lib"><component name="c"/></model>)";
    const char *MAIN = R"(<?xml version="1.0" encoding="UTF-8"?>
<model xmlns="http://www.cellml.org/cellml/2.0#" name="main">
  <import xmlns:xlink="http://www.w3.org/1999/xlink" xlink:href="lib.cellml"><component component_ref="c" name="imp"/></import>
  <component name="k1"/><component name="k2"/><component name="k3"/>
  <encapsulation><component_ref component="imp"><component_ref component="k1"/><component_ref component="k2"/><component_ref component="k3"/></component_ref></encapsulation>
</model>)";
    auto parser = Parser::create();
    auto lib = parser->parseModel(LIB);
    auto model = parser->parseModel(MAIN);
    auto validator = Validator::create();
    validator->validateModel(model);
    std::cout << "validator issues on the importing model: " << validator->issueCount() << "\n";
    auto importer = Importer::create();
    importer->addModel(lib, "lib.cellml");
    importer->resolveImports(model, "");
    auto flat = importer->flattenModel(model);
    if (!flat) { std::cout << "flatten failed\n"; return 2; }
    std::cout << Printer::create()->printModel(flat);
    size_t n = 0;
    for (const char *nm : {"k1", "k2", "k3", "k1_1", "k2_1", "k3_1"}) if (flat->containsComponent(nm, true)) ++n;
    std::cout << "children of the import found in the flat model: " << n << " of 3\n";
    return n == 3 ? 0 : 1;
}
