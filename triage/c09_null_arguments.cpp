#include <libcellml/analyserexternalvariable.h>
#include <libcellml/analyserequationast.h>
#include <libcellml/annotator.h>
#include <libcellml/component.h>
#include <libcellml/generator.h>
#include <libcellml/importer.h>
#include <libcellml/model.h>
#include <libcellml/units.h>
#include <libcellml/variable.h>
#include <cstdio>
#include <cstdlib>
#include <sys/wait.h>
#include <unistd.h>
template <class Fn> static int survives(const char *what, Fn fn)
{
    fflush(stdout);
    pid_t p = fork();
    if (p == 0) { fn(); _exit(0); }
    int st = 0; waitpid(p, &st, 0);
    bool ok = WIFEXITED(st) && WEXITSTATUS(st) == 0;
    std::printf("%-60s %s\n", what, ok ? "returns" : "CRASHES");
    return ok ? 0 : 1;
}
int main()
{
    int bad = 0;
    libcellml::VariablePtr nullV; libcellml::ComponentPtr nullC; libcellml::UnitsPtr nullU; libcellml::ModelPtr nullM;
    bad += survives("Variable::addEquivalence(v, null, id, id)", [&] { auto v = libcellml::Variable::create("v"); libcellml::Variable::addEquivalence(v, nullV, "a", "b"); });
    bad += survives("Variable::setInitialValue(null variable)", [&] { auto v = libcellml::Variable::create("v"); v->setInitialValue(nullV); });
    bad += survives("Model::replaceUnits(0, null)", [&] { auto m = libcellml::Model::create("m"); m->addUnits(libcellml::Units::create("u")); bool r = m->replaceUnits(0, nullU); if (r || m->unitsCount() != 1) abort(); });
    bad += survives("ComponentEntity::replaceComponent(0, null)", [&] { auto m = libcellml::Model::create("m"); m->addComponent(libcellml::Component::create("c")); bool r = m->replaceComponent(0, nullC); if (r || m->componentCount() != 1) abort(); });
    bad += survives("Importer::clearImports(null)", [&] { auto i = libcellml::Importer::create(); i->clearImports(nullM); });
    bad += survives("Generator::equationCode(null)", [&] { libcellml::AnalyserEquationAstPtr a; auto s = libcellml::Generator::equationCode(a); if (!s.empty()) abort(); });
    bad += survives("AnalyserExternalVariable::addDependency(null)", [&] { auto v = libcellml::Variable::create("v"); auto c = libcellml::Component::create("c"); c->addVariable(v); auto m = libcellml::Model::create("m"); m->addComponent(c); auto e = libcellml::AnalyserExternalVariable::create(v); if (e->addDependency(nullV)) abort(); });
    bad += survives("Annotator::assignId(null item)", [&] { auto a = libcellml::Annotator::create(); a->setModel(libcellml::Model::create("m")); libcellml::AnyCellmlElementPtr it; auto s = a->assignId(it); if (!s.empty() || a->issueCount() == 0) abort(); });
    std::printf("%d crashing calls\n", bad);
    return bad;
}
