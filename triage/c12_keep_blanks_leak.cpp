#include <libcellml/component.h>
#include <libcellml/model.h>
#include <libcellml/parser.h>
#include <libcellml/printer.h>
#include <libcellml/reset.h>
#include <cstdio>
static const char *txt = "<?xml version=\"1.0\"?><model xmlns=\"http://www.cellml.org/cellml/2.0#\" name=\"m\"><component name=\"c\">\n"
   "<math xmlns=\"http://www.w3.org/1998/Math/MathML\">\n  <apply>\n    <eq/>\n    <ci>a</ci>\n    <ci>b</ci>\n  </apply>\n</math></component></model>";
int main()
{
    auto p1 = libcellml::Parser::create();
    auto m1 = p1->parseModel(txt);
    std::string before = m1->component(0)->math();
    libcellml::Printer::create()->printModel(m1);        // an unrelated library call
    auto p2 = libcellml::Parser::create();               // fresh parser, same text
    auto m2 = p2->parseModel(txt);
    std::string after = m2->component(0)->math();
    std::printf("same text, fresh parser: math strings equal: %d (lengths %zu vs %zu); models equal: %d\n", before == after, before.size(), after.size(), m1->equals(m2));
    return before == after ? 0 : 1;
}
