// Triage replay (not a registered check): Importer::hasImportSource(nullptr) / removeImportSource(out of range) on an importer that holds an import source.
#include <libcellml>
#include <cstdio>
using namespace libcellml;
int main()
{
    auto importer = Importer::create();
    auto is = ImportSource::create();
    is->setUrl("a.cellml");
    importer->addImportSource(is);
    std::printf("count %zu\n", importer->importSourceCount());
    std::printf("removeImportSource(7) -> %d\n", importer->removeImportSource(size_t(7)));
    std::printf("hasImportSource(nullptr) -> %d\n", importer->hasImportSource(nullptr));
    std::printf("removeImportSource(nullptr) -> %d\n", importer->removeImportSource(ImportSourcePtr()));
    std::printf("ok, count %zu\n", importer->importSourceCount());
    return 0;
}
