// Triage replay (not a registered check): Model::clone() when a variable of the model is equivalent to a variable outside the model.
#include <libcellml>
#include <cstdio>
#include <cstdlib>
using namespace libcellml;
int main(int argc, char **argv)
{
    int which = argc > 1 ? atoi(argv[1]) : 1;
    auto m = Model::create("m");
    auto c1 = Component::create("c1"), c2 = Component::create("c2");
    m->addComponent(c1); m->addComponent(c2);
    auto v1 = Variable::create("v1"), v2 = Variable::create("v2"), v3 = Variable::create("v3");
    c1->addVariable(v1); c2->addVariable(v2);
    Variable::addEquivalence(v1, v2);
    VariablePtr keep;
    ComponentPtr keepC;
    if (which == 1) {           // parentless equivalent variable
        Variable::addEquivalence(v1, v3);
    } else if (which == 2) {    // the component of the equivalent variable was removed from the model but is still alive
        keepC = c2;
        m->removeComponent(c2);
    } else if (which == 3) {    // equivalent variable in another model
        auto other = Model::create("other");
        auto oc = Component::create("oc");
        other->addComponent(oc);
        oc->addVariable(v3);
        Variable::addEquivalence(v1, v3);
        auto clone = m->clone();
        std::printf("case 3: clone has %zu components; clone v1 has %zu equivalent variable(s)\n", clone->componentCount(), clone->component(0)->variable(0)->equivalentVariableCount());
        return 0;
    }
    auto clone = m->clone();
    std::printf("case %d: clone has %zu components; clone v1 has %zu equivalent variable(s)\n", which, clone->componentCount(), clone->component(0)->variable(0)->equivalentVariableCount());
    return 0;
}
