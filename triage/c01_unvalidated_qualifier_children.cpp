// Triage replay (not a registered check): children of bvar are not validated on the pinned tree: <bvar><ci/></bvar> passes Validator::validateModel with 0 issues and
// Analyser::analyseModel then dereferences the missing text child (SIGSEGV in nonCommentChildNode).  The same holds for <degree> and <logbase> (see /tmp variants in DESIGN).
#include <libcellml>
#include <iostream>
int main(int argc, char **argv)
{
    std::string which = argc > 1 ? argv[1] : "a";
    std::string bv = which == "a" ? "<bvar><ci/></bvar>" : (which == "b" ? "<bvar><ci></ci></bvar>" : "<bvar><ci><!-- c --></ci></bvar>");
    std::string doc = "<?xml version=\"1.0\"?><model xmlns=\"http://www.cellml.org/cellml/2.0#\" name=\"m\"><component name=\"c\"><variable name=\"t\" units=\"second\"/><variable name=\"x\" units=\"dimensionless\" initial_value=\"0\"/>"
                      "<math xmlns=\"http://www.w3.org/1998/Math/MathML\" xmlns:cellml=\"http://www.cellml.org/cellml/2.0#\"><apply><eq/><apply><diff/>" + bv + "<ci>x</ci></apply><cn cellml:units=\"dimensionless\">1</cn></apply></math></component></model>";
    auto model = libcellml::Parser::create()->parseModel(doc);
    auto v = libcellml::Validator::create();
    v->validateModel(model);
    std::cout << "validator issues " << v->issueCount() << std::endl;
    for (size_t i = 0; i < v->issueCount(); ++i) std::cout << "  " << v->issue(i)->description() << std::endl;
    auto a = libcellml::Analyser::create();
    a->analyseModel(model);
    std::cout << "analyser issues " << a->issueCount() << std::endl;
    std::cout << "returned normally" << std::endl;
    return 0;
}
