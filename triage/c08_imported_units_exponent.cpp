#include <libcellml/importer.h>
#include <libcellml/importsource.h>
#include <libcellml/model.h>
#include <libcellml/units.h>
#include <cstdio>
int main()
{
    auto lib = libcellml::Model::create("lib");
    auto len = libcellml::Units::create("len"); len->addUnit("metre"); lib->addUnits(len);
    auto m = libcellml::Model::create("main");
    auto imp = libcellml::Units::create("imp");
    auto src = libcellml::ImportSource::create(); src->setUrl("lib.cellml");
    imp->setImportSource(src); imp->setImportReference("len"); m->addUnits(imp);
    auto a = libcellml::Units::create("a"); a->addUnit("imp", 2.0); m->addUnits(a);
    auto m2 = libcellml::Units::create("m2"); m2->addUnit("metre", 2.0); m->addUnits(m2);
    auto importer = libcellml::Importer::create();
    importer->addModel(lib, "lib.cellml");
    bool ok = importer->resolveImports(m, "");
    std::printf("resolved %d, issues %zu; a defined %d; compatible(a, metre^2)=%d compatible(a, metre)=%d\n", ok, importer->issueCount(), a->isDefined(), libcellml::Units::compatible(a, m2), libcellml::Units::compatible(a, libcellml::Units::create("metre")));
    return libcellml::Units::compatible(a, m2) ? 0 : 1;
}
