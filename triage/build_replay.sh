#!/bin/sh
# Triage helper: build a replay driver against /repo/_build.  usage: build_replay.sh <driver.cpp> <out>
g++ -std=c++17 -I/repo/src/api -I/repo/src/api/libcellml/module -I/repo/_build/src/api "$1" -o "$2" -L/repo/_build/src -lcellml -Wl,-rpath,/repo/_build/src
