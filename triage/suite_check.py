#!/usr/bin/env python3
"""Triage helper (not a registered check): rebuild /repo/_build (or the build dir given) and verify that EVERY test case listed as
stable_pass in /root/.vp/BASELINE.json still passes.  Unlike a grep over gtest output this notices a test binary that crashes
(none of its cases is reported as passed).  usage: suite_check.py [build dir]"""
import glob
import json
import os
import subprocess
import sys
import tempfile
from concurrent.futures import ThreadPoolExecutor

build = sys.argv[1] if len(sys.argv) > 1 else '/repo/_build'
r = subprocess.run(['cmake', '--build', build, '-j16'], stdout=subprocess.PIPE, stderr=subprocess.STDOUT, text=True)
if r.returncode != 0:
    print(r.stdout[-3000:])
    print('BUILD-FAILED')
    sys.exit(2)
base = json.load(open('/root/.vp/BASELINE.json'))
want = set(base['stable_pass'])
tmp = tempfile.mkdtemp(prefix='suite-')
passed = set()
crashed = []


def run(binary):
    out = os.path.join(tmp, os.path.basename(binary) + '.json')
    p = subprocess.run([binary, '--gtest_output=json:' + out], stdout=subprocess.PIPE, stderr=subprocess.STDOUT, text=True, timeout=900, cwd=os.path.dirname(binary))
    res = set()
    if os.path.exists(out):
        try:
            j = json.load(open(out))
            for ts in j.get('testsuites', []):
                for t in ts.get('testsuite', []):
                    if not t.get('failures') and t.get('result', 'COMPLETED') == 'COMPLETED' and t.get('status', 'RUN') == 'RUN':
                        res.add('%s::%s' % (ts['name'], t['name']))
        except Exception:
            pass
    return binary, p.returncode, res


bins = sorted(b for b in glob.glob(os.path.join(build, 'tests', 'test_*')) if os.access(b, os.X_OK) and not os.path.isdir(b))
with ThreadPoolExecutor(max_workers=8) as ex:
    for binary, rc, res in ex.map(run, bins):
        passed |= res
        if rc < 0 or rc > 1:
            crashed.append((os.path.basename(binary), rc))
# ctest-level entries (api header inclusion tests etc.): name::name
ct = subprocess.run(['ctest', '--test-dir', build, '-j8', '--timeout', '900'], stdout=subprocess.PIPE, stderr=subprocess.STDOUT, text=True).stdout
for line in ct.splitlines():
    if 'Test' in line and 'Passed' in line and ':' in line:
        name = line.split(':', 1)[1].split('.')[0].strip()
        passed.add('%s::%s' % (name, name))
missing = sorted(want - passed)
print('%d stable_pass cases, %d of them passed, %d missing; crashed binaries: %s' % (len(want), len(want & passed), len(missing), crashed))
for m in missing[:40]:
    print('  NOT PASSED:', m)
print('SUITE-OK' if not missing else 'SUITE-BROKEN')
sys.exit(0 if not missing else 1)
