// Triage replay (not a registered check): child components are compared by membership, not one-to-one:
// p{c,c} equals q{c,d} but q{c,d} does not equal p{c,c}.
#include <libcellml>
#include <cstdio>
using namespace libcellml;
int main()
{
    auto p = Component::create("p"), q = Component::create("p");
    p->addComponent(Component::create("c"));
    p->addComponent(Component::create("c"));
    q->addComponent(Component::create("c"));
    q->addComponent(Component::create("d"));
    bool pq = p->equals(q), qp = q->equals(p);
    auto m1 = Model::create("m"), m2 = Model::create("m");
    m1->addComponent(Component::create("c")); m1->addComponent(Component::create("c"));
    m2->addComponent(Component::create("c")); m2->addComponent(Component::create("d"));
    bool m12 = m1->equals(m2), m21 = m2->equals(m1);
    std::printf("components: p==q %d q==p %d | models: m1==m2 %d m2==m1 %d\n", pq, qp, m12, m21);
    bool bad = pq || qp || m12 || m21;
    std::printf(bad ? "DEFECT: {c,c} and {c,d} are reported equal in at least one direction\n" : "ok\n");
    return bad;
}
