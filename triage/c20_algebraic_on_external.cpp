// Triage replay (not a registered check): an algebraic variable that depends only on an external variable in an ODE model -
// where does the generated code compute it, and is that after the external variable has a value?
#include <iostream>
#include <libcellml>
using namespace libcellml;
int main()
{
    const char *txt = R"(<?xml version="1.0" encoding="UTF-8"?>
<model xmlns="http://www.cellml.org/cellml/2.0#" xmlns:cellml="http://www.cellml.org/cellml/2.0#" name="m">
  <component name="c">
    <variable name="t" units="second"/>
    <variable name="x" units="dimensionless" initial_value="1"/>
    <variable name="e" units="dimensionless"/>
    <variable name="y" units="dimensionless"/>
    <variable name="k" units="dimensionless"/>
    <math xmlns="http://www.w3.org/1998/Math/MathML">
      <apply><eq/><apply><diff/><bvar><ci>t</ci></bvar><ci>x</ci></apply><cn cellml:units="dimensionless">1</cn></apply>
      <apply><eq/><ci>e</ci><apply><times/><cn cellml:units="dimensionless">3</cn><ci>x</ci></apply></apply>
      <apply><eq/><ci>y</ci><apply><times/><cn cellml:units="dimensionless">2</cn><ci>e</ci></apply></apply>
      <apply><eq/><ci>k</ci><cn cellml:units="dimensionless">5</cn></apply>
    </math>
  </component>
</model>)";
    auto model = Parser::create()->parseModel(txt);
    auto a = Analyser::create();
    a->addExternalVariable(AnalyserExternalVariable::create(model->component(0)->variable("e")));
    a->analyseModel(model);
    std::cout << "issues " << a->issueCount() << " type " << AnalyserModel::typeAsString(a->model()->type()) << "\n";
    for (size_t v = 0; v < a->model()->variableCount(); ++v) {
        auto av = a->model()->variable(v);
        std::cout << " " << av->index() << ":" << av->variable()->name() << "=" << AnalyserVariable::typeAsString(av->type());
    }
    std::cout << "\n";
    auto g = Generator::create();
    g->setModel(a->model());
    auto code = g->implementationCode();
    auto p = code.find("void initialiseVariables");
    std::cout << code.substr(p) << "\n";
    return 0;
}
