// Replay: same model as seeded/C17-5/demo.cpp but with the equation of z written BEFORE the equation of y.
// C17 demo: the C code generated for a valid analysed model must compile, and every identifier used in the body of a
// generated method must be one of that method's parameters.
//
// Scenario: a DAE model, i.e. one ODE (dq/dt = 1) plus an algebraic part in which
//     x*x + x = 6   (x has an initial guess, so it has to be computed using an NLA system),
//     y = 2*x       (looks like a variable-based constant until x is found to be computed using an NLA system),
//     z = 2*y       (depends on y, so it cannot be a constant either).
// x, y and z must all end up as algebraic variables that are computed in computeVariables(). In particular, nothing that
// needs the NLA solver may be computed from computeComputedConstants(double *variables) since, in a differential model,
// a call to findRoot0() needs voi, states and rates, which that method does not have.
//
// Exit code 0 = property holds, non-zero = violated.

#include <cstdlib>
#include <fstream>
#include <iostream>
#include <string>

#include <libcellml>

static const char *MODEL =
    "<?xml version=\"1.0\" encoding=\"UTF-8\"?>\n"
    "<model xmlns=\"http://www.cellml.org/cellml/2.0#\" xmlns:cellml=\"http://www.cellml.org/cellml/2.0#\" name=\"dae_model\">\n"
    "  <component name=\"main\">\n"
    "    <variable name=\"t\" units=\"second\"/>\n"
    "    <variable name=\"q\" units=\"dimensionless\" initial_value=\"0\"/>\n"
    "    <variable name=\"x\" units=\"dimensionless\" initial_value=\"1\"/>\n"
    "    <variable name=\"y\" units=\"dimensionless\"/>\n"
    "    <variable name=\"z\" units=\"dimensionless\"/>\n"
    "    <math xmlns=\"http://www.w3.org/1998/Math/MathML\">\n"
    "      <apply><eq/>\n"
    "        <apply><diff/><bvar><ci>t</ci></bvar><ci>q</ci></apply>\n"
    "        <cn cellml:units=\"per_second\">1</cn>\n"
    "      </apply>\n"
    "      <apply><eq/>\n"
    "        <apply><plus/>\n"
    "          <apply><times/><ci>x</ci><ci>x</ci></apply>\n"
    "          <ci>x</ci>\n"
    "        </apply>\n"
    "        <cn cellml:units=\"dimensionless\">6</cn>\n"
    "      </apply>\n"
    "      <apply><eq/>\n"
    "        <ci>z</ci>\n"
    "        <apply><times/><cn cellml:units=\"dimensionless\">2</cn><ci>y</ci></apply>\n"
    "      </apply>\n"
    "      <apply><eq/>\n"
    "        <ci>y</ci>\n"
    "        <apply><times/><cn cellml:units=\"dimensionless\">2</cn><ci>x</ci></apply>\n"
    "      </apply>\n"
    "    </math>\n"
    "  </component>\n"
    "  <units name=\"per_second\">\n"
    "    <unit units=\"second\" exponent=\"-1\"/>\n"
    "  </units>\n"
    "</model>\n";

static std::string methodBody(const std::string &code, const std::string &signature)
{
    auto pos = code.find(signature);

    if (pos == std::string::npos) {
        return {};
    }

    auto begin = code.find("{\n", pos);
    auto end = code.find("\n}\n", begin);

    return code.substr(begin + 2, end - begin - 1);
}

int main()
{
    auto parser = libcellml::Parser::create();
    auto model = parser->parseModel(MODEL);
    auto analyser = libcellml::Analyser::create();

    analyser->analyseModel(model);

    for (size_t i = 0; i < analyser->issueCount(); ++i) {
        std::cout << "analyser issue: " << analyser->issue(i)->description() << std::endl;
    }

    auto analyserModel = analyser->model();

    std::cout << "model type: " << libcellml::AnalyserModel::typeAsString(analyserModel->type())
              << ", states: " << analyserModel->stateCount()
              << ", variables: " << analyserModel->variableCount() << std::endl;

    if (analyserModel->type() != libcellml::AnalyserModel::Type::DAE) {
        std::cout << "unexpected model type, the demo cannot run" << std::endl;

        return 2;
    }

    for (const auto &variable : analyserModel->variables()) {
        std::cout << "  variables[" << variable->index() << "] = " << variable->variable()->name()
                  << ": " << libcellml::AnalyserVariable::typeAsString(variable->type()) << std::endl;
    }

    auto generator = libcellml::Generator::create();

    generator->setModel(analyserModel);

    auto interfaceCode = generator->interfaceCode();
    auto implementationCode = generator->implementationCode();
    int res = 0;

    // Textual check: computeComputedConstants(double *variables) can only use its variables parameter.

    auto body = methodBody(implementationCode, "void computeComputedConstants(double *variables)\n");

    std::cout << "---- body of computeComputedConstants(double *variables) ----" << std::endl
              << body
              << "----" << std::endl;

    for (const char *identifier : {"voi", "states", "rates", "findRoot"}) {
        if (body.find(identifier) != std::string::npos) {
            std::cout << "VIOLATION: computeComputedConstants(double *variables) uses '" << identifier << "', which it cannot have" << std::endl;

            res = 1;
        }
    }

    // Actual check: feed the generated code to a C compiler, if there is one.

    if (std::system("gcc --version > /dev/null 2>&1") == 0) {
        std::ofstream("model.h") << interfaceCode;
        std::ofstream("model.c") << implementationCode;

        if (std::system("gcc -std=c99 -Wall -Wno-unused-variable -Wno-unused-parameter -fsyntax-only model.c") != 0) {
            std::cout << "VIOLATION: the generated C code does not compile" << std::endl;

            res = 1;
        } else {
            std::cout << "the generated C code compiles" << std::endl;
        }
    } else {
        std::cout << "(gcc not available, the generated code was only checked textually)" << std::endl;
    }

    std::cout << (res == 0 ? "OK: property holds" : "FAILED: property violated") << std::endl;

    return res;
}
