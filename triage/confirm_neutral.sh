#!/bin/bash
# usage: confirm.sh <worktree> <id>...   : apply each neutral patch to the pristine worktree, build, run the whole suite, undo
W=$1; shift
cd $W || exit 1
for id in "$@"; do
  git checkout -q -- . ; 
  if ! git apply --check /tmp/seed9/neutral/$id/patch.diff 2>/dev/null; then echo "== $id PATCH-DOES-NOT-APPLY"; continue; fi
  git apply /tmp/seed9/neutral/$id/patch.diff
  if ! cmake --build _build -j6 > /tmp/seed9/$id.build.log 2>&1; then echo "== $id BUILD-FAILED"; git checkout -q -- .; continue; fi
  r=$(ctest --test-dir _build -j6 --timeout 900 2>&1 | grep -E "tests passed|tests failed" | tail -1)
  echo "== $id $(git diff --stat | tail -1) :: $r"
  git checkout -q -- .
done
