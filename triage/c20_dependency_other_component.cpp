// Triage replay (not a registered check): an external variable e declares a dependency on y, whose class is computed by an equation that
// lives in ANOTHER component (y is mapped to other.y2, and the equation y2 = 3*x is written in `other`).  Is e's callback called after y?
#include <iostream>
#include <libcellml>
using namespace libcellml;
int main(int argc, char **argv)
{
    const char *txt = R"(<?xml version="1.0" encoding="UTF-8"?>
<model xmlns="http://www.cellml.org/cellml/2.0#" xmlns:cellml="http://www.cellml.org/cellml/2.0#" name="m">
  <component name="main">
    <variable name="t" units="second" interface="public"/>
    <variable name="x" units="dimensionless" initial_value="1" interface="public"/>
    <variable name="e" units="dimensionless"/>
    <variable name="y" units="dimensionless" interface="public"/>
    <math xmlns="http://www.w3.org/1998/Math/MathML">
      <apply><eq/><apply><diff/><bvar><ci>t</ci></bvar><ci>x</ci></apply><cn cellml:units="dimensionless">1</cn></apply>
      <apply><eq/><ci>e</ci><apply><plus/><ci>x</ci><cn cellml:units="dimensionless">1</cn></apply></apply>
    </math>
  </component>
  <component name="other">
    <variable name="x2" units="dimensionless" interface="public"/>
    <variable name="y2" units="dimensionless" interface="public"/>
    <math xmlns="http://www.w3.org/1998/Math/MathML">
      <apply><eq/><ci>y2</ci><apply><times/><cn cellml:units="dimensionless">3</cn><ci>x2</ci></apply></apply>
    </math>
  </component>
  <connection component_1="main" component_2="other">
    <map_variables variable_1="x" variable_2="x2"/>
    <map_variables variable_1="y" variable_2="y2"/>
  </connection>
</model>)";
    auto model = Parser::create()->parseModel(txt);
    auto v = Validator::create();
    v->validateModel(model);
    std::cout << "validator issues " << v->issueCount() << "\n";
    auto a = Analyser::create();
    auto ext = AnalyserExternalVariable::create(model->component("main")->variable("e"));
    bool which = argc > 1;   // with an argument: declare the dependency on other.y2 instead of main.y
    std::cout << "addDependency(" << (which ? "other.y2" : "main.y") << ") -> " << ext->addDependency(which ? model->component("other")->variable("y2") : model->component("main")->variable("y")) << "\n";
    a->addExternalVariable(ext);
    a->analyseModel(model);
    std::cout << "issues " << a->issueCount() << " type " << AnalyserModel::typeAsString(a->model()->type()) << "\n";
    for (size_t i = 0; i < a->issueCount(); ++i) std::cout << "  " << a->issue(i)->description() << "\n";
    for (size_t q = 0; q < a->model()->equationCount(); ++q) {
        auto eq = a->model()->equation(q);
        std::cout << " eq " << q << " " << AnalyserEquation::typeAsString(eq->type()) << " computes";
        for (size_t k = 0; k < eq->variableCount(); ++k) std::cout << " " << eq->variable(k)->variable()->name();
        std::cout << " deps=" << eq->dependencyCount() << "\n";
    }
    auto g = Generator::create();
    g->setModel(a->model());
    auto code = g->implementationCode();
    auto p = code.find("void computeVariables");
    std::cout << (p == std::string::npos ? code : code.substr(p)) << "\n";
    return 0;
}
