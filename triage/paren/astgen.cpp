// Triage helper (not a registered check): reads one s-expression per line, e.g. (LT (CI a) (LT (CI b) (CI d))),
// builds the AnalyserEquationAst through the public API and prints Generator::equationCode() for the C and Python profiles.
#include <libcellml/analyserequationast.h>
#include <libcellml/generator.h>
#include <libcellml/generatorprofile.h>
#include <libcellml/variable.h>
#include <iostream>
#include <map>
#include <sstream>
#include <string>
using namespace libcellml;
static const std::map<std::string, AnalyserEquationAst::Type> T = {
#define X(n) {#n, AnalyserEquationAst::Type::n}
    X(EQUALITY), X(EQ), X(NEQ), X(LT), X(LEQ), X(GT), X(GEQ), X(AND), X(OR), X(XOR), X(NOT), X(PLUS), X(MINUS), X(TIMES), X(DIVIDE), X(POWER), X(ROOT), X(ABS), X(EXP), X(LN), X(LOG),
    X(CEILING), X(FLOOR), X(MIN), X(MAX), X(REM), X(SIN), X(COS), X(TAN), X(PIECEWISE), X(PIECE), X(OTHERWISE), X(CI), X(CN), X(DEGREE), X(LOGBASE), X(TRUE), X(FALSE), X(E), X(PI), X(INF)
#undef X
};
static size_t pos;
static std::string s;
static void ws() { while (pos < s.size() && s[pos] == ' ') ++pos; }
static std::string tok() { ws(); size_t b = pos; while (pos < s.size() && s[pos] != ' ' && s[pos] != '(' && s[pos] != ')') ++pos; return s.substr(b, pos - b); }
static AnalyserEquationAstPtr parse()
{
    ws();
    if (s[pos] != '(') { std::cerr << "parse error at " << pos << "\n"; exit(2); }
    ++pos;
    auto name = tok();
    auto ast = AnalyserEquationAst::create();
    ast->setType(T.at(name));
    if (name == "CI") { auto v = Variable::create(tok()); ast->setVariable(v); }
    else if (name == "CN") { ast->setValue(tok()); }
    else {
        ws();
        if (s[pos] == '(') { auto l = parse(); l->setParent(ast); ast->setLeftChild(l); }
        ws();
        if (s[pos] == '(') { auto r = parse(); r->setParent(ast); ast->setRightChild(r); }
    }
    ws();
    if (s[pos] != ')') { std::cerr << "expected ) at " << pos << " in " << s << "\n"; exit(2); }
    ++pos;
    return ast;
}
int main()
{
    auto c = GeneratorProfile::create(GeneratorProfile::Profile::C);
    auto py = GeneratorProfile::create(GeneratorProfile::Profile::PYTHON);
    while (std::getline(std::cin, s)) {
        if (s.empty()) continue;
        pos = 0;
        auto ast = parse();
        std::cout << "C\t" << Generator::equationCode(ast, c) << "\nPY\t" << Generator::equationCode(ast, py) << "\n";
    }
    return 0;
}
