#!/usr/bin/env python3
"""Triage tool (NOT a registered check): replays every parenthesisation obligation that the static rule C03.P1 reports
as violated against the real generator.  For each key an AST instance is built through the public API (astgen.cpp),
Generator::equationCode() is asked for the C and the Python text, and that text is evaluated by the real languages
(gcc / the Python interpreter) on random operand values and compared with the value of the AST.  Output: one line per
key - CONFIRMED (values differ or the text does not compile) or NOT-CONFIRMED."""
import itertools
import json
import os
import random
import subprocess
import sys
import tempfile

HERE = os.path.dirname(os.path.abspath(__file__))
sys.path.insert(0, os.path.join(HERE, '..', '..', 'sa'))
import facts            # noqa: E402
import paren_check      # noqa: E402

ROOT_TYPE = {'+': 'PLUS', '-': 'MINUS', '*': 'TIMES', '/': 'DIVIDE', '<': 'LT', '<=': 'LEQ', '>': 'GT', '>=': 'GEQ', '==': 'EQ', '!=': 'NEQ', '&&': 'AND', '||': 'OR', '?:': 'PIECEWISE', 'if-else': 'PIECEWISE'}
BIN = {'PLUS': lambda a, b: a + b, 'MINUS': lambda a, b: a - b, 'TIMES': lambda a, b: a * b, 'DIVIDE': lambda a, b: a / b,
       'LT': lambda a, b: float(a < b), 'LEQ': lambda a, b: float(a <= b), 'GT': lambda a, b: float(a > b), 'GEQ': lambda a, b: float(a >= b),
       'EQ': lambda a, b: float(a == b), 'NEQ': lambda a, b: float(a != b), 'AND': lambda a, b: float(bool(a) and bool(b)), 'OR': lambda a, b: float(bool(a) or bool(b))}


PYFUNCS = {'eq_func': lambda a, b: float(a == b), 'neq_func': lambda a, b: float(a != b), 'lt_func': lambda a, b: float(a < b), 'leq_func': lambda a, b: float(a <= b),
           'gt_func': lambda a, b: float(a > b), 'geq_func': lambda a, b: float(a >= b), 'and_func': lambda a, b: float(bool(a) and bool(b)),
           'or_func': lambda a, b: float(bool(a) or bool(b)), 'not_func': lambda a: float(not bool(a))}


def leaf(n):
    return ('CI', n)


def inst(ykey, r, sminus, names):
    """An AST instance of child class ykey whose emitted text has syntactic root r."""
    sub = ykey[ykey.index('[') + 1:ykey.index(']')] if '[' in ykey else None
    ykey = ykey.split('[')[0]
    t = ykey.split('/')[0].replace('~-', '')
    ar = ykey.split('/')[1].replace('~-', '') if '/' in ykey else None
    if sub:
        return ('MINUS', (sub, leaf(names[0]), leaf(names[1])))
    b, c, p = names
    first = ('MINUS', leaf(b)) if sminus else leaf(b)
    if t == 'CN':
        return ('CN', '-3' if ar == 'neg' else '3')
    if t == 'CI':
        return leaf(b)
    if t == 'NOT':
        return ('NOT', leaf(b))
    if t == 'PIECEWISE':
        return ('PIECEWISE', ('PIECE', first, leaf(p)), ('OTHERWISE', leaf(c)))
    if t == 'MINUS' and ar == '1':
        if r in ('*', '/'):
            return ('MINUS', (ROOT_TYPE[r], leaf(b), leaf(c)))
        return ('MINUS', leaf(b))
    if t == 'PLUS' and ar == '1':
        if r in ROOT_TYPE:
            z = inst(ROOT_TYPE[r] + ('/2' if ROOT_TYPE[r] in ('PLUS', 'MINUS') else ''), r, sminus, names)
            return ('PLUS', z)
        return ('PLUS', first)
    return (t, first, leaf(c))


def sexpr(t):
    if t[0] == 'CI':
        return '(CI %s)' % t[1]
    if t[0] == 'CN':
        return '(CN %s)' % t[1]
    return '(' + t[0] + ''.join(' ' + sexpr(x) for x in t[1:]) + ')'


def ev(t, env):
    k = t[0]
    if k == 'CI':
        return env[t[1]]
    if k == 'CN':
        return float(t[1])
    if k == 'NOT':
        return float(not bool(ev(t[1], env)))
    if k == 'PIECEWISE':
        piece, other = t[1], t[2]
        return ev(piece[1], env) if bool(ev(piece[2], env)) else ev(other[1], env)
    if k in ('PLUS', 'MINUS') and len(t) == 2:
        v = ev(t[1], env)
        return v if k == 'PLUS' else -v
    return BIN[k](ev(t[1], env), ev(t[2], env))


def main():
    ALL = '--all' in sys.argv
    F = facts.Facts()
    keys = []
    for o in paren_check.obligations(F):
        prof, xk, tok, side, yk, bad, glue, line = o
        if ALL:
            base = yk.replace('~-', '').split('[')[0]
            if base.split('/')[0] not in set(BIN) | {'CI', 'CN', 'NOT', 'PIECEWISE'}:
                continue    # function-call forms: always self-delimiting
            rs = ['*', '/', 'neg'] if base == 'MINUS/1' else (sorted(set(ROOT_TYPE) - {'if-else'}) + ['atom']) if base == 'PLUS/1' else ['own']
            for r in rs:
                keys.append((prof, xk, tok, side, yk, r))
            continue
        if not (bad or glue):
            continue
        for r in (bad or ['glue']):
            keys.append((prof, xk, tok, side, yk, r))
    names_all = ['a', 'b', 'c', 'p']
    lines = []
    trees = []
    for prof, xk, tok, side, yk, r in keys:
        sm = yk.endswith('~-') or (r == 'glue' and not yk.startswith('CN'))
        y = inst(yk, r if r != 'glue' else '*', sm, ('b', 'c', 'p'))
        xt = xk.split('/')[0]
        if xk == 'PIECE':
            tree = ('PIECEWISE', ('PIECE', y if side == 'value' else leaf('a'), y if side == 'condition' else leaf('q')), ('OTHERWISE', leaf('d')))
        elif xt == 'NOT':
            tree = ('NOT', y)
        elif xt == 'MINUS' and xk.endswith('/1'):
            tree = ('MINUS', y)
        else:
            tree = (xt, y, leaf('a')) if side == 'left' else (xt, leaf('a'), y)
        trees.append(tree)
        lines.append(sexpr(tree))
    astgen = os.environ.get('ASTGEN', '/tmp/replay/astgen')
    out = subprocess.run([astgen], input='\n'.join(lines) + '\n', stdout=subprocess.PIPE, text=True).stdout.splitlines()
    codes = [(out[2 * i].split('\t', 1)[1], out[2 * i + 1].split('\t', 1)[1]) for i in range(len(trees))]
    random.seed(1)
    envs = []
    while len(envs) < 160:
        e = {n: float(random.choice([-3, -2, -1, 1, 2, 3, 0, 0, 1, 1])) for n in ['a', 'b', 'c', 'd', 'p', 'q']}
        envs.append(e)
    # C: one translation unit per expression so that a syntax error is attributed to its key
    tmp = tempfile.mkdtemp(prefix='paren-replay-')
    results = []
    for i, ((prof, xk, tok, side, yk, r), tree, (ccode, pycode)) in enumerate(zip(keys, trees, codes)):
        code = ccode if prof == 'C' else pycode
        verdict = None
        detail = ''
        exp = []
        for e in envs:
            try:
                exp.append(ev(tree, e))
            except ZeroDivisionError:
                exp.append(None)
        if prof == 'C':
            src = os.path.join(tmp, 'e%d.c' % i)
            with open(src, 'w') as fh:
                fh.write('#include <stdio.h>\n#include <math.h>\nint main(void){double a,b,c,d,p,q;\n')
                for e in envs:
                    fh.write('a=%s;b=%s;c=%s;d=%s;p=%s;q=%s; printf("%%.17g\\n", (double)(%s));\n' % (e['a'], e['b'], e['c'], e['d'], e['p'], e['q'], code))
                fh.write('return 0;}\n')
            exe = src[:-2]
            r1 = subprocess.run(['gcc', '-w', '-o', exe, src, '-lm'], stdout=subprocess.PIPE, stderr=subprocess.STDOUT, text=True)
            if r1.returncode != 0:
                verdict, detail = 'CONFIRMED', 'does not compile as C: ' + r1.stdout.strip().splitlines()[0][-80:]
            else:
                got = [float(x) if x not in ('inf', '-inf', 'nan', '-nan') else None for x in subprocess.run([exe], stdout=subprocess.PIPE, text=True).stdout.split()]
        else:
            got = []
            for e in envs:
                try:
                    got.append(float(eval(code, PYFUNCS, dict(e))))
                except ZeroDivisionError:
                    got.append(None)
                except SyntaxError as ex:
                    verdict, detail = 'CONFIRMED', 'not valid Python: %s' % ex.msg
                    break
        if verdict is None:
            diff = [(e, x, g) for e, x, g in zip(envs, exp, got) if x is not None and g is not None and abs(x - g) > 1e-9]
            if diff:
                e, x, g = diff[0]
                verdict, detail = 'CONFIRMED', 'AST value %g, generated text gives %g for %s' % (x, g, {k: v for k, v in e.items() if k in sexpr(tree)})
            else:
                verdict, detail = 'NOT-CONFIRMED', 'equal on %d operand vectors' % len(envs)
        results.append({'key': '|'.join((prof, xk, side, yk, r)), 'ast': sexpr(tree), 'code': code, 'verdict': verdict, 'detail': detail})
    json.dump(results, open(os.path.join(HERE, 'replay_all_results.json' if ALL else 'replay_results.json'), 'w'), indent=1)
    conf = sum(1 for r in results if r['verdict'] == 'CONFIRMED')
    print('%d keys, %d confirmed, %d not confirmed' % (len(results), conf, len(results) - conf))
    for r in results:
        if (r['verdict'] != 'CONFIRMED') != ALL:
            print(r['verdict'], r['key'], r['ast'], '->', r['code'], r['detail'])
    import shutil
    shutil.rmtree(tmp, ignore_errors=True)


if __name__ == '__main__':
    main()
