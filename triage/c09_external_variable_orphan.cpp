// Triage replay (not a registered check): external variables / dependencies whose variable has been removed from its component.
#include <libcellml>
#include <cstdio>
#include <cstring>
using namespace libcellml;
int main(int argc, char **argv)
{
    const char *txt = R"(<?xml version="1.0" encoding="UTF-8"?>
<model xmlns="http://www.cellml.org/cellml/2.0#" xmlns:cellml="http://www.cellml.org/cellml/2.0#" name="m">
  <component name="c">
    <variable name="x" units="dimensionless"/>
    <variable name="v" units="dimensionless"/>
    <variable name="d" units="dimensionless"/>
    <math xmlns="http://www.w3.org/1998/Math/MathML">
      <apply><eq/><ci>x</ci><cn cellml:units="dimensionless">1</cn></apply>
    </math>
  </component>
</model>)";
    int which = argc > 1 ? atoi(argv[1]) : 0;
    auto model = Parser::create()->parseModel(txt);
    auto c = model->component(0);
    auto v = c->variable("v");
    auto d = c->variable("d");
    auto a = Analyser::create();
    auto ev = AnalyserExternalVariable::create(v);
    std::printf("addDependency %d\n", ev->addDependency(d));
    a->addExternalVariable(ev);
    if (which == 1) {
        c->removeVariable(d);
        std::printf("containsDependency(nullptr, c, d) -> %d\n", ev->containsDependency(nullptr, "c", "d"));
    } else if (which == 2) {
        c->removeVariable(v);
        std::printf("containsExternalVariable(nullptr, c, v) -> %d\n", a->containsExternalVariable(nullptr, "c", "v"));
    } else if (which == 3) {
        c->removeVariable(v);
        a->analyseModel(model);
        std::printf("analyseModel: %zu issues\n", a->issueCount());
    } else if (which == 4) {
        std::printf("removeExternalVariable(nullptr, c, v) -> %d\n", a->removeExternalVariable(nullptr, "c", "v"));
        c->removeVariable(v);
        std::printf("removeExternalVariable(nullptr, c, v) -> %d\n", a->removeExternalVariable(nullptr, "c", "v"));
    } else if (which == 5) {
        auto p = Component::create("p");
        p->addVariable(Variable::create("w"));
        std::printf("parentless component with unitless variable: isResolved -> %d\n", p->isResolved());
    } else if (which == 6) {
        auto p = Component::create("p");
        p->setMath("<math xmlns=\"http://www.w3.org/1998/Math/MathML\" xmlns:cellml=\"http://www.cellml.org/cellml/2.0#\"><apply><eq/><ci>w</ci><cn cellml:units=\"mV\">1</cn></apply></math>");
        std::printf("parentless component with cn units: isResolved -> %d isDefined -> %d\n", p->isResolved(), p->isDefined());
    } else if (which == 7) {
        auto e2 = AnalyserExternalVariable::create(nullptr);
        a->addExternalVariable(e2);
        std::printf("external variable without variable: containsExternalVariable(model, c, zz) -> %d\n", a->containsExternalVariable(model, "c", "zz"));
    }
    std::printf("ok\n");
    return 0;
}
