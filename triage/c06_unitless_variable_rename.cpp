// Triage replay (not a registered check): flattening an imported component that has a variable without units while one of its units must be renamed.
#include <iostream>
#include <libcellml>
using namespace libcellml;
int main()
{
    const char *LIB = R"(<?xml version="1.0" encoding="UTF-8"?>
<model xmlns="http://www.cellml.org/cellml/2.0#" name="lib">
  <units name="ms"><unit prefix="milli" units="second"/></units>
  <component name="c"><variable name="a" units="ms" initial_value="1"/><variable name="b"/></component>
</model>)";
    const char *MAIN = R"(<?xml version="1.0" encoding="UTF-8"?>
<model xmlns="http://www.cellml.org/cellml/2.0#" name="main">
  <import xmlns:xlink="http://www.w3.org/1999/xlink" xlink:href="lib.cellml"><component component_ref="c" name="imp"/></import>
  <units name="ms"><unit prefix="mega" units="second"/></units>
  <component name="local"><variable name="t" units="ms" initial_value="0"/></component>
</model>)";
    auto parser = Parser::create(false);
    auto lib = parser->parseModel(LIB);
    auto model = parser->parseModel(MAIN);
    auto importer = Importer::create();
    importer->addModel(lib, "lib.cellml");
    std::cout << "resolve " << importer->resolveImports(model, "") << " issues " << importer->issueCount() << std::endl;
    auto flat = importer->flattenModel(model);
    std::cout << "flatten " << (flat != nullptr) << " issues " << importer->issueCount() << std::endl;
    for (size_t i = 0; i < importer->issueCount(); ++i) std::cout << "  " << importer->issue(i)->description() << "\n";
    if (flat) std::cout << Printer::create()->printModel(flat);
    return 0;
}
