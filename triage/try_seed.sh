#!/bin/bash
# Triage helper: apply a seeded patch to /repo, run the property's quick check, undo the patch straight afterwards.
# usage: try_seed.sh <seed dir under /verif/seeded> [property ids...]
S=$1; shift
P=${@:-$(jq -r .property $S/meta.json)}
git -C /repo apply $S/patch.diff || { echo "PATCH-DOES-NOT-APPLY $S"; exit 3; }
for p in $P; do
  /verif/check $p --tier quick > /tmp/try_seed.out 2>&1; rc=$?
  echo "$(basename $S) vs $p: exit=$rc $(grep -c '^VIOLATION' /tmp/try_seed.out) violation(s)"
  grep -A3 "^VIOLATION" /tmp/try_seed.out | grep -E "instance|ANALYSIS" | head -5
  grep "ANALYSIS-BROKEN" /tmp/try_seed.out
done
git -C /repo checkout -- .
