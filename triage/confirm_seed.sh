#!/bin/bash
# Triage helper (not a registered check): confirm a seeded change in a scratch worktree of /repo HEAD:
#   the suite still passes with it, its demo fails with it and passes without it.  usage: confirm_seed.sh <dir with patch.diff+demo.cpp>
set -u
S=$1
W=${SEEDW:-/tmp/seedconfirm}
if [ ! -d $W ]; then
  git -C /repo worktree add -q --detach $W HEAD || exit 2
  (cd $W && cmake -G Ninja -S . -B _build -DLIBCELLML_BINDINGS_PYTHON=OFF -DLIBCELLML_COVERAGE=OFF -DLIBCELLML_MEMCHECK=OFF -DLIBCELLML_BUILD_TYPE=Release -DLIBCELLML_TREAT_WARNINGS_AS_ERRORS=OFF -DLIBCELLML_CLANG_TIDY=OFF >/dev/null 2>&1)
fi
cd $W && git checkout -q --detach $(git -C /repo rev-parse HEAD) 2>/dev/null; git checkout -q -- . 
build() { cmake --build _build -j16 2>&1 | grep -E "error|FAILED" ; }
demo() { g++ -std=c++17 -I src/api -I src/api/libcellml/module -I _build/src/api $S/demo.cpp -o $W.demo -L _build/src -lcellmld -Wl,-rpath,$W/_build/src 2>&1 | head -5; (mkdir -p $W.run && cd $W.run && timeout 300 $W.demo >$W.demo.out 2>&1; echo $?); }
build; P=$(demo | tail -1)
git apply $S/patch.diff || { echo "PATCH-DOES-NOT-APPLY"; exit 3; }
build
ctest --test-dir _build -j8 --timeout 900 2>&1 | grep -E "tests passed|tests failed" 
M=$(demo | tail -1)
git checkout -q -- .
echo "demo pristine exit=$P mutated exit=$M"
