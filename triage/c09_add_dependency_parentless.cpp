// Triage replay (not a registered check): AnalyserExternalVariable::addDependency() with variables that are in no model.
#include <libcellml>
#include <cstdio>
using namespace libcellml;
int main()
{
    auto v = Variable::create("v"), d = Variable::create("d");
    auto ev = AnalyserExternalVariable::create(v);
    bool r = ev->addDependency(d);
    std::printf("addDependency(parentless) -> %d, dependencyCount %zu\n", r, ev->dependencyCount());
    return r ? 1 : 0;
}
