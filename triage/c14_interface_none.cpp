#include <libcellml/component.h>
#include <libcellml/model.h>
#include <libcellml/parser.h>
#include <libcellml/variable.h>
#include <cstdio>
int main()
{
    const char *txt = "<?xml version=\"1.0\"?><model xmlns=\"http://www.cellml.org/cellml/1.1#\" name=\"m\"><component name=\"c\">"
      "<variable name=\"a\" units=\"second\" public_interface=\"none\" private_interface=\"none\"/>"
      "<variable name=\"b\" units=\"second\" public_interface=\"in\" private_interface=\"none\"/></component></model>";
    auto p = libcellml::Parser::create(false);
    auto m = p->parseModel(txt);
    auto a = m->component(0)->variable("a"), b = m->component(0)->variable("b");
    std::printf("a interface '%s' (expected none), b interface '%s' (expected public)\n", a->interfaceType().c_str(), b->interfaceType().c_str());
    return (a->interfaceType() == "none" || a->interfaceType().empty()) && b->interfaceType() == "public" ? 0 : 1;
}
