#include <libcellml/component.h>
#include <libcellml/model.h>
#include <libcellml/reset.h>
#include <libcellml/printer.h>
#include <libcellml/variable.h>
#include <libcellml/units.h>
#include <libcellml/importsource.h>
#include <cstdio>
int main()
{
    int bad = 0;
    auto r = libcellml::Reset::create();
    auto rc = r->clone();
    std::printf("reset: order set original %d clone %d\n", r->isOrderSet(), rc->isOrderSet());
    bad += r->isOrderSet() != rc->isOrderSet();
    auto c = libcellml::Component::create("c");
    c->setEncapsulationId("enc1");
    auto cc = c->clone();
    std::printf("component: encapsulation id original '%s' clone '%s'\n", c->encapsulationId().c_str(), cc->encapsulationId().c_str());
    bad += c->encapsulationId() != cc->encapsulationId();
    auto imp = libcellml::ImportSource::create(); imp->setUrl("a.cellml");
    auto ic = libcellml::Component::create("i"); ic->setImportSource(imp); ic->setImportReference("x");
    auto icc = ic->clone();
    icc->importSource()->setUrl("b.cellml");
    std::printf("import source: original url after editing the clone's: '%s'\n", ic->importSource()->url().c_str());
    bad += ic->importSource()->url() != "a.cellml";
    auto m = libcellml::Model::create("m");
    auto c1 = libcellml::Component::create("c1"), c2 = libcellml::Component::create("c2");
    auto v1 = libcellml::Variable::create("v1"), v2 = libcellml::Variable::create("v2");
    c1->addVariable(v1); c2->addVariable(v2); m->addComponent(c1); m->addComponent(c2);
    libcellml::Variable::addEquivalence(v1, v2, "map1", "con1");
    auto mc = m->clone();
    auto w1 = mc->component(0)->variable(0), w2 = mc->component(1)->variable(0);
    std::printf("model: clone mapping id '%s' connection id '%s'\n", libcellml::Variable::equivalenceMappingId(w1, w2).c_str(), libcellml::Variable::equivalenceConnectionId(w1, w2).c_str());
    bad += libcellml::Variable::equivalenceMappingId(w1, w2) != "map1";
    std::printf("%d clone defects\n", bad);
    return bad;
}
