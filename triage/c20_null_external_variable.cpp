#include <libcellml/analyser.h>
#include <libcellml/analyserexternalvariable.h>
#include <libcellml/analysermodel.h>
#include <libcellml/model.h>
#include <libcellml/parser.h>
#include <cstdio>
static const char *good = "<?xml version=\"1.0\"?><model xmlns=\"http://www.cellml.org/cellml/2.0#\" name=\"m\"><component name=\"c\"><variable name=\"a\" units=\"dimensionless\"/>"
   "<math xmlns=\"http://www.w3.org/1998/Math/MathML\"><apply><eq/><ci>a</ci><cn xmlns:cellml=\"http://www.cellml.org/cellml/2.0#\" cellml:units=\"dimensionless\">1</cn></apply></math></component></model>";
int main(int argc, char **argv)
{
    auto m = libcellml::Parser::create()->parseModel(good);
    auto an = libcellml::Analyser::create();
    libcellml::AnalyserExternalVariablePtr nullEv;
    bool added = an->addExternalVariable(nullEv);
    std::printf("addExternalVariable(null) -> %d, count %zu\n", added, an->externalVariableCount()); fflush(stdout);
    an->analyseModel(m);
    std::printf("analysed: type %d issues %zu\n", (int)an->model()->type(), an->issueCount());
    auto ev = libcellml::AnalyserExternalVariable::create(nullptr);
    an->removeAllExternalVariables();
    std::printf("external variable with null variable: add %d\n", an->addExternalVariable(ev)); fflush(stdout);
    an->analyseModel(m);
    std::printf("analysed again: type %d issues %zu\n", (int)an->model()->type(), an->issueCount());
    return 0;
}
