// Triage replay (not a registered check): inputs reported by round-6 seeding agents as crashing the UNMODIFIED pipeline.
//  usage: c01_round6_reports <case>   (each case in its own process: a crash is the finding)
#include <libcellml>
#include <iostream>
#include <string>

static std::string model20(const std::string &math, const std::string &vars = "<variable name=\"x\" units=\"dimensionless\"/><variable name=\"y\" units=\"dimensionless\"/>")
{
    return "<?xml version=\"1.0\"?><model xmlns=\"http://www.cellml.org/cellml/2.0#\" name=\"m\"><component name=\"c\">" + vars
           + "<math xmlns=\"http://www.w3.org/1998/Math/MathML\" xmlns:cellml=\"http://www.cellml.org/cellml/2.0#\">" + math + "</math></component></model>";
}

static void pipeline(const std::string &doc, bool strict)
{
    auto parser = libcellml::Parser::create(strict);
    auto model = parser->parseModel(doc);
    std::cout << "parsed, issues=" << parser->issueCount() << std::endl;
    if (model == nullptr) {
        return;
    }
    auto printer = libcellml::Printer::create();
    std::cout << "printed " << printer->printModel(model).size() << " bytes" << std::endl;
    auto validator = libcellml::Validator::create();
    validator->validateModel(model);
    std::cout << "validated, issues=" << validator->issueCount() << std::endl;
    auto importer = libcellml::Importer::create();
    importer->resolveImports(model, "");
    auto flat = importer->flattenModel(model);
    auto analyser = libcellml::Analyser::create();
    analyser->analyseModel(model);
    std::cout << "analysed, issues=" << analyser->issueCount() << std::endl;
    auto generator = libcellml::Generator::create();
    generator->setModel(analyser->model());
    std::cout << "generated " << generator->implementationCode().size() << " bytes" << std::endl;
}

int main(int argc, char **argv)
{
    std::string c = argc > 1 ? argv[1] : "";
    if (c == "ci-two-units") {
        // <ci> with both cellml:units and units
        pipeline(model20("<apply><eq/><ci>x</ci><ci cellml:units=\"dimensionless\" units=\"dimensionless\">y</ci></apply>"), true);
        pipeline(model20("<apply><eq/><ci>x</ci><cn cellml:units=\"dimensionless\" units=\"dimensionless\">3</cn></apply>"), true);
        pipeline(model20("<apply><eq/><ci>x</ci><cn cellml:units=\"dimensionless\" units=\"second\">3</cn></apply>"), false);
    } else if (c == "entity-1x") {
        std::string doc = "<?xml version=\"1.0\"?><!DOCTYPE model [<!ENTITY e \"<ci>y</ci>\">]><model xmlns=\"http://www.cellml.org/cellml/1.1#\" xmlns:cellml=\"http://www.cellml.org/cellml/1.1#\" name=\"m\"><component name=\"c\">"
                          "<variable name=\"x\" units=\"dimensionless\"/><variable name=\"y\" units=\"dimensionless\"/>"
                          "<math xmlns=\"http://www.w3.org/1998/Math/MathML\"><apply><eq/><ci>x</ci>&e;</apply></math></component></model>";
        pipeline(doc, false);
        std::string doc2 = "<?xml version=\"1.0\"?><!DOCTYPE model [<!ENTITY e \"y\">]><model xmlns=\"http://www.cellml.org/cellml/1.0#\" name=\"m\"><component name=\"c\">"
                           "<variable name=\"x\" units=\"dimensionless\"/><variable name=\"y\" units=\"dimensionless\"/>"
                           "<math xmlns=\"http://www.w3.org/1998/Math/MathML\"><apply><eq/><ci>x</ci><ci>&e;</ci></apply></math></component></model>";
        pipeline(doc2, false);
        std::string doc3 = "<?xml version=\"1.0\"?><!DOCTYPE model [<!ENTITY e \"y\">]><model xmlns=\"http://www.cellml.org/cellml/1.0#\" name=\"m\"><component name=\"c\">"
                           "<variable name=\"x\" units=\"dimensionless\"/><variable name=\"y\" units=\"dimensionless\"/>"
                           "<math xmlns=\"http://www.w3.org/1998/Math/MathML\"><apply><eq/><ci>x</ci>&e;</apply></math></component></model>";
        pipeline(doc3, false);
    } else if (c == "annotator-dead-model") {
        auto annotator = libcellml::Annotator::create();
        {
            auto model = libcellml::Model::create("m");
            auto comp = libcellml::Component::create("c");
            comp->setId("id1");
            model->addComponent(comp);
            annotator->setModel(model);
            std::cout << "ids with live model: " << annotator->ids().size() << std::endl;
        }
        std::cout << "ids after the model died: " << annotator->ids().size() << std::endl;
        std::cout << "itemCount: " << annotator->itemCount("id1") << std::endl;
        std::cout << "assignAllIds: " << annotator->assignAllIds() << " issues=" << annotator->issueCount() << std::endl;
    }
    std::cout << "returned normally" << std::endl;
    return 0;
}
