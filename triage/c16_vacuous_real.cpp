#include <libcellml/parser.h>
#include <libcellml/model.h>
#include <libcellml/validator.h>
#include <cstdio>
int main()
{
    const char *txt = "<?xml version=\"1.0\"?><model xmlns=\"http://www.cellml.org/cellml/2.0#\" name=\"m\"><units name=\"u\"><unit units=\"second\" exponent=\"-\"/></units></model>";
    auto p = libcellml::Parser::create();
    auto model = p->parseModel(txt);
    std::printf("parsed, %zu issues\n", p->issueCount());
    return p->issueCount() > 0 ? 0 : 1;
}
