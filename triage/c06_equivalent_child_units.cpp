// Triage replay (not a registered check): imported units whose child units already exist in the importing model under another name.
#include <iostream>
#include <libcellml>
using namespace libcellml;
int main()
{
    const char *LIB = R"(<?xml version="1.0" encoding="UTF-8"?>
<model xmlns="http://www.cellml.org/cellml/2.0#" name="lib">
  <units name="msec"><unit prefix="milli" units="second"/></units>
  <units name="rate"><unit units="msec" exponent="-1"/></units>
  <units name="flux"><unit units="rate"/><unit units="mole"/></units>
  <component name="c"><variable name="k" units="flux" initial_value="1"/></component>
</model>)";
    const char *MAIN = R"(<?xml version="1.0" encoding="UTF-8"?>
<model xmlns="http://www.cellml.org/cellml/2.0#" name="main">
  <import xmlns:xlink="http://www.w3.org/1999/xlink" xlink:href="lib.cellml"><component component_ref="c" name="imp"/></import>
  <units name="ms"><unit prefix="milli" units="second"/></units>
  <component name="local"><variable name="t" units="ms" initial_value="0"/></component>
</model>)";
    auto parser = Parser::create();
    auto lib = parser->parseModel(LIB);
    auto model = parser->parseModel(MAIN);
    auto importer = Importer::create();
    importer->addModel(lib, "lib.cellml");
    importer->resolveImports(model, "");
    auto v = Validator::create();
    v->validateModel(lib);
    size_t libIssues = v->issueCount();
    v->validateModel(model);
    std::cout << "validator issues: library " << libIssues << ", importing model " << v->issueCount() << "\n";
    auto flat = importer->flattenModel(model);
    if (!flat) { std::cout << "flatten failed\n"; return 2; }
    std::cout << Printer::create()->printModel(flat);
    v->validateModel(flat);
    std::cout << "validator issues on the flat model: " << v->issueCount() << "\n";
    for (size_t i = 0; i < v->issueCount(); ++i) std::cout << "  " << v->issue(i)->description() << "\n";
    return v->issueCount() == 0 ? 0 : 1;
}
