#include <libcellml/parser.h>
#include <libcellml/model.h>
#include <libcellml/validator.h>
#include <libcellml/analyser.h>
#include <libcellml/analysermodel.h>
#include <cstdio>
int main()
{
    const char *txt = "<?xml version=\"1.0\"?><model xmlns=\"http://www.cellml.org/cellml/2.0#\" name=\"m\"><component name=\"c\">"
      "<variable name=\"a\" units=\"dimensionless\" initial_value=\"2\"/><variable name=\"b\" units=\"dimensionless\" initial_value=\"a\"/>"
      "<variable name=\"x\" units=\"second\" initial_value=\"3\"/><variable name=\"y\" units=\"second\"/>"
      "<math xmlns=\"http://www.w3.org/1998/Math/MathML\"><apply><eq/><ci>y</ci><apply><power/><ci>x</ci><ci>b</ci></apply></apply></math></component></model>";
    auto p = libcellml::Parser::create();
    auto model = p->parseModel(txt);
    auto v = libcellml::Validator::create();
    v->validateModel(model);
    std::printf("parser issues %zu, validator issues %zu\n", p->issueCount(), v->issueCount());
    auto a = libcellml::Analyser::create();
    a->analyseModel(model);
    std::printf("analysed: type %d, issues %zu\n", (int)a->model()->type(), a->issueCount());
    return 0;
}
