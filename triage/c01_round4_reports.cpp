// Triage replay (not a registered check): crash reports of the round-4 seeding agents against the unmodified library.
#include <libcellml>
#include <cstdio>
#include <cstdlib>
#include <string>
using namespace libcellml;
static std::string model(const std::string &cname, const std::string &math, const std::string &extraVars = "", const std::string &doctype = "", const std::string &bodyPrefix = "")
{
    return "<?xml version=\"1.0\" encoding=\"UTF-8\"?>\n" + doctype +
           "<model xmlns=\"http://www.cellml.org/cellml/2.0#\" xmlns:cellml=\"http://www.cellml.org/cellml/2.0#\" name=\"m\">" + bodyPrefix +
           "<component name=\"" + cname + "\"><variable name=\"x\" units=\"dimensionless\"/><variable name=\"a\" units=\"dimensionless\" initial_value=\"1\"/>" + extraVars +
           "<math xmlns=\"http://www.w3.org/1998/Math/MathML\">" + math + "</math></component></model>";
}
int main(int argc, char **argv)
{
    int which = argc > 1 ? atoi(argv[1]) : 1;
    std::string txt;
    const std::string ok = "<apply><eq/><ci>x</ci><ci>a</ci></apply>";
    if (which == 1) txt = model("c", ok, "", "<!DOCTYPE model [<!ENTITY foo \"bar\">]>\n", "&foo;");
    if (which == 2) txt = model("NOT ORIGIN: x", ok);
    if (which == 3) txt = model("c", "<apply><eq/><ci>x</ci><apply><rem/></apply></apply>");
    if (which == 4) txt = model("c", "<apply><eq/><ci>x</ci><piecewise/></apply>");
    if (which == 5) txt = model("c", "<apply><eq/><ci>x</ci><apply><min/><ci>a</ci></apply></apply>");
    if (which == 6) txt = model("c", "<apply><eq/><apply><diff/><bvar><ci>t</ci></bvar><ci>x</ci></apply><ci>a</ci></apply>", "<variable name=\"t\" units=\"dimensionless\"/>");
    if (which == 7) txt = model("c", "<apply><eq/><ci>x" + std::string(60000, ' ') + "</ci><ci>a</ci></apply>");
    auto parser = Parser::create();
    std::printf("case %d: parse\n", which); fflush(stdout);
    auto m = parser->parseModel(txt);
    std::printf("  parser issues %zu\n", parser->issueCount()); fflush(stdout);
    if (which == 6) m->component(0)->variable("x")->setInitialValue("1E5");
    auto v = Validator::create();
    v->validateModel(m);
    std::printf("  validator issues %zu%s%s\n", v->issueCount(), v->issueCount() ? ": " : "", v->issueCount() ? v->issue(0)->description().c_str() : ""); fflush(stdout);
    auto pr = Printer::create();
    auto out = pr->printModel(m);
    std::printf("  printed %zu bytes\n", out.size()); fflush(stdout);
    auto a = Analyser::create();
    a->analyseModel(m);
    std::printf("  analyser issues %zu, type %s\n", a->issueCount(), AnalyserModel::typeAsString(a->model()->type()).c_str()); fflush(stdout);
    auto g = Generator::create();
    g->setModel(a->model());
    auto code = g->implementationCode();
    std::printf("  generated %zu bytes\n", code.size());
    if (which == 6) {
        auto p = code.find("1E5");
        std::printf("  initialisation: %s\n", p == std::string::npos ? "(1E5 not found)" : code.substr(p - 12, 24).c_str());
    }
    return 0;
}
