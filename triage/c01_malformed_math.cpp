#include <libcellml/component.h>
#include <libcellml/model.h>
#include <libcellml/variable.h>
#include <libcellml/units.h>
#include <libcellml/printer.h>
#include <libcellml/validator.h>
#include <libcellml/importer.h>
#include <cstdio>
#include <cstdlib>
int main(int argc, char **argv)
{
    int op = atoi(argv[1]);
    auto m = libcellml::Model::create("m"); auto c = libcellml::Component::create("c"); m->addComponent(c);
    auto v = libcellml::Variable::create("v"); v->setUnits("second"); c->addVariable(v);
    c->setMath("<math xmlns=\"http://www.w3.org/1998/Math/MathML\"><apply>");
    if (op == 0) std::printf("isDefined %d\n", c->isDefined());
    if (op == 1) std::printf("print %zu\n", libcellml::Printer::create()->printModel(m).size());
    if (op == 2) { auto val = libcellml::Validator::create(); val->validateModel(m); std::printf("validator %zu\n", val->issueCount()); }
    if (op == 3) { auto i = libcellml::Importer::create(); auto f = i->flattenModel(m); std::printf("flatten %p\n", (void *)f.get()); }
    if (op == 4) { m->clean(); auto cl = m->clone(); std::printf("clone ok\n"); }
    std::printf("op %d returned\n", op);
}
