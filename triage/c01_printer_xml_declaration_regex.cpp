// Triage replay (not a registered check): a long line after an XML declaration inside math makes printMath's declaration regex recurse.
#include <libcellml>
#include <cstdio>
#include <string>
using namespace libcellml;
int main()
{
    auto m = Model::create("m");
    auto c = Component::create("c");
    m->addComponent(c);
    std::string math = "<?xml version=\"1.0\"?><math xmlns=\"http://www.w3.org/1998/Math/MathML\"><apply><eq/><ci>y</ci><ci>" + std::string("x") + "</ci></apply></math><!--" + std::string(200000, 'a') + "-->";
    c->setMath(math);
    auto out = Printer::create()->printModel(m);
    std::printf("printed %zu bytes; declaration removed: %d\n", out.size(), out.find("<?xml", 10) == std::string::npos);
    // semantics of the removal: one line, greedy up to the last "?>" of that line; a declaration on a later line is removed separately
    c->setMath("<?xml version=\"1.0\"?><math xmlns=\"http://www.w3.org/1998/Math/MathML\"/>\n<?xml version=\"1.0\" encoding=\"UTF-8\"?><math xmlns=\"http://www.w3.org/1998/Math/MathML\"><ci>z</ci></math>");
    out = Printer::create()->printModel(m);
    std::printf("%s\n", out.c_str());
    return 0;
}
