#include <libcellml/annotator.h>
#include <libcellml/component.h>
#include <libcellml/model.h>
#include <libcellml/variable.h>
#include <cstdio>
int main()
{
    int bad = 0;
    {   // (a) assignAllIds() after the model was edited
        auto m = libcellml::Model::create("m");
        auto a = libcellml::Annotator::create(); a->setModel(m);
        auto c = libcellml::Component::create("c"); c->setId("b4da55"); m->addComponent(c);
        a->assignAllIds();
        std::printf("(a) model id '%s' component id '%s'\n", m->id().c_str(), c->id().c_str());
        bad += m->id() == c->id();
    }
    {   // (b) mapping id set after setModel, then assignId(component)
        auto m = libcellml::Model::create("m");
        auto c1 = libcellml::Component::create("c1"), c2 = libcellml::Component::create("c2");
        auto v1 = libcellml::Variable::create("v1"), v2 = libcellml::Variable::create("v2");
        c1->addVariable(v1); c2->addVariable(v2); m->addComponent(c1); m->addComponent(c2);
        libcellml::Variable::addEquivalence(v1, v2);
        auto a = libcellml::Annotator::create(); a->setModel(m);
        libcellml::Variable::setEquivalenceMappingId(v1, v2, "b4da55");
        auto id = a->assignId(c1);
        std::printf("(b) mapping id '%s' new component id '%s'\n", libcellml::Variable::equivalenceMappingId(v1, v2).c_str(), id.c_str());
        bad += id == "b4da55";
    }
    std::printf("%d duplicate ids\n", bad);
    return bad;
}
