#include <libcellml/analyser.h>
#include <libcellml/analysermodel.h>
#include <libcellml/analyserexternalvariable.h>
#include <libcellml/parser.h>
#include <libcellml/variable.h>
#include <libcellml/model.h>
#include <cstdio>
int main()
{
    const char *txt = "<?xml version=\"1.0\"?><model xmlns=\"http://www.cellml.org/cellml/2.0#\" name=\"m\"><component name=\"c\"><variable name=\"a\" units=\"dimensionless\"/>"
                      "<math xmlns=\"http://www.w3.org/1998/Math/MathML\"><apply><eq/><ci>a</ci><cn xmlns:cellml=\"http://www.cellml.org/cellml/2.0#\" cellml:units=\"dimensionless\">1</cn></apply></math></component></model>";
    auto model = libcellml::Parser::create()->parseModel(txt);
    auto analyser = libcellml::Analyser::create();
    analyser->analyseModel(model);
    auto am = analyser->model();
    auto v = libcellml::Variable::create("v");
    
    std::printf("(null,v)=%d\n", am->areEquivalentVariables(nullptr, v)); fflush(stdout);
    return 0;
}
