#include <libcellml/analyser.h>
#include <libcellml/importer.h>
#include <libcellml/model.h>
#include <libcellml/parser.h>
#include <libcellml/printer.h>
#include <libcellml/units.h>
#include <libcellml/validator.h>
#include <libcellml/component.h>
#include <cstdio>
#include <cstdlib>
#include <cstring>
static const char *txt = "<?xml version=\"1.0\"?><model xmlns=\"http://www.cellml.org/cellml/2.0#\" name=\"m\">"
  "<units name=\"a\"><unit units=\"b\"/></units><units name=\"b\"><unit units=\"a\"/></units>"
  "<component name=\"c1\"><variable name=\"x\" units=\"a\" interface=\"public\"/></component>"
  "<component name=\"c2\"><variable name=\"y\" units=\"b\" interface=\"public\"/></component>"
  "<connection component_1=\"c1\" component_2=\"c2\"><map_variables variable_1=\"x\" variable_2=\"y\"/></connection></model>";
int main(int argc, char **argv)
{
    auto model = libcellml::Parser::create()->parseModel(txt);
    auto a = model->units("a"), b = model->units("b");
    int op = atoi(argv[1]);
    switch (op) {
    case 0: { auto v = libcellml::Validator::create(); v->validateModel(model); break; }
    case 1: model->hasImports(); break;
    case 2: model->hasUnresolvedImports(); break;
    case 3: model->isDefined(); break;
    case 4: a->isDefined(); break;
    case 5: a->requiresImports(); break;
    case 6: libcellml::Units::compatible(a, b); break;
    case 7: libcellml::Units::scalingFactor(a, b, false); break;
    case 8: libcellml::Printer::create()->printModel(model); break;
    case 9: { auto i = libcellml::Importer::create(); i->flattenModel(model); break; }
    case 10: { auto an = libcellml::Analyser::create(); an->analyseModel(model); break; }
    case 11: { auto i = libcellml::Importer::create(); i->resolveImports(model, ""); break; }
    }
    std::printf("op %d returned\n", op);
    return 0;
}
