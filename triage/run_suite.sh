#!/bin/sh
# Triage helper (not a registered check): rebuild /repo/_build and run the pinned suite; report gtest cases that fail
# and are not in BASELINE.always_fail.
set -e
echo "use triage/suite_check.py (this script misses crashed test binaries)"; exec python3 /verif/triage/suite_check.py
ctest --test-dir /repo/_build -j8 --timeout 900 >/tmp/suite.log 2>&1 || true
tail -3 /tmp/suite.log
ctest --test-dir /repo/_build -j8 --rerun-failed --output-on-failure 2>/dev/null | grep "^\[  FAILED  \] [A-Za-z]*\.[A-Za-z0-9_]* (" | sed 's/\[  FAILED  \] //; s/ (.*//; s/\./::/' | sort -u > /tmp/suite.failed
jq -r '.always_fail[]' /root/.vp/BASELINE.json | sort -u > /tmp/suite.expected
echo "unexpected failures:"; comm -23 /tmp/suite.failed /tmp/suite.expected
test -z "$(comm -23 /tmp/suite.failed /tmp/suite.expected)" && echo "SUITE-OK (only baseline always_fail cases fail)"
