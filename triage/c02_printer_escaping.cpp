// Triage replay (not a registered check): attribute text containing XML markup characters.
// Pre-fix: Printer::printModel() returns an empty string for a valid import href such as m?a=1&b=2.
#include <iostream>
#include <libcellml>
using namespace libcellml;
int main()
{
    auto model = Model::create("m");
    auto imp = ImportSource::create();
    imp->setUrl("lib.cellml?a=1&b=2");
    auto c = Component::create("c");
    c->setImportSource(imp);
    c->setImportReference("r");
    model->addComponent(c);
    auto d = Component::create("d");
    d->setId("x<y>\"q\"");
    model->addComponent(d);
    auto printer = Printer::create();
    auto text = printer->printModel(model);
    std::cout << "printed " << text.size() << " characters, printer issues " << printer->issueCount() << "\n" << text;
    if (text.empty()) { std::cout << "DEFECT: empty document for a model with '&' in an import href\n"; return 1; }
    auto parser = Parser::create();
    auto back = parser->parseModel(text);
    bool same = back->componentCount() == 2 && back->component(0)->isImport() && back->component(0)->importSource()->url() == "lib.cellml?a=1&b=2" && back->component(1)->id() == "x<y>\"q\"";
    std::cout << "parser issues " << parser->issueCount() << ", content preserved: " << same << "\n";
    auto again = printer->printModel(back);
    std::cout << "second print identical: " << (again == text) << "\n";
    return (same && again == text) ? 0 : 1;
}
