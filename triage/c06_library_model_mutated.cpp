// Triage replay (not a registered check): Importer::flattenModel() changes a library model.
// main imports c1 from l1; c1 encapsulates c2, which l1 imports from l2 (component d) and connects to c1.
// main has different units called `u`, so the imported `u` becomes `u_1`; updateComponentsVariablesUnitsNames()
// then calls setUnits() on the variable of l2's component (reached through ImportSource::model()).
#include <iostream>
#include <libcellml>
using namespace libcellml;
static const char *L2 = R"(<?xml version="1.0" encoding="UTF-8"?>
<model xmlns="http://www.cellml.org/cellml/2.0#" name="l2">
  <units name="u"><unit prefix="milli" units="second"/></units>
  <component name="d"><variable name="v" units="u" interface="public" initial_value="1"/></component>
</model>)";
static const char *L1 = R"(<?xml version="1.0" encoding="UTF-8"?>
<model xmlns="http://www.cellml.org/cellml/2.0#" name="l1">
  <import xmlns:xlink="http://www.w3.org/1999/xlink" xlink:href="l2.cellml"><component component_ref="d" name="c2"/></import>
  <units name="u"><unit prefix="milli" units="second"/></units>
  <component name="c1"><variable name="w" units="u" interface="private"/></component>
  <connection component_1="c1" component_2="c2"><map_variables variable_1="w" variable_2="v"/></connection>
  <encapsulation><component_ref component="c1"><component_ref component="c2"/></component_ref></encapsulation>
</model>)";
static const char *MAIN = R"(<?xml version="1.0" encoding="UTF-8"?>
<model xmlns="http://www.cellml.org/cellml/2.0#" name="main">
  <import xmlns:xlink="http://www.w3.org/1999/xlink" xlink:href="l1.cellml"><component component_ref="c1" name="imp"/></import>
  <units name="u"><unit units="metre"/></units>
  <component name="local"><variable name="y" units="u" initial_value="2"/></component>
</model>)";
int main()
{
    auto parser = Parser::create();
    auto l2 = parser->parseModel(L2);
    auto l1 = parser->parseModel(L1);
    auto model = parser->parseModel(MAIN);
    auto importer = Importer::create();
    importer->addModel(l1, "l1.cellml");
    importer->addModel(l2, "l2.cellml");
    importer->resolveImports(model, "");
    std::cout << "importer issues after resolve: " << importer->issueCount() << "\n";
    for (size_t i = 0; i < importer->issueCount(); ++i) std::cout << "  " << importer->issue(i)->description() << "\n";
    auto printer = Printer::create();
    std::string before2 = printer->printModel(l2), before1 = printer->printModel(l1), beforeM = printer->printModel(model);
    auto flat = importer->flattenModel(model);
    std::cout << "flatten " << (flat ? "succeeded" : "failed") << ", importer issues: " << importer->issueCount() << "\n";
    std::string after2 = printer->printModel(l2), after1 = printer->printModel(l1), afterM = printer->printModel(model);
    std::cout << "input model unchanged: " << (beforeM == afterM) << "\nlibrary l1 unchanged: " << (before1 == after1) << "\nlibrary l2 unchanged: " << (before2 == after2) << "\n";
    if (before2 != after2) std::cout << "--- l2 after flattenModel\n" << after2;
    if (before1 != after1) std::cout << "--- l1 after flattenModel\n" << after1;
    if (flat) { auto v = Validator::create(); v->validateModel(flat); std::cout << "--- flat model (validator issues: " << v->issueCount() << ")\n" << printer->printModel(flat); }
    bool bad = (before2 != after2) || (before1 != after1) || (beforeM != afterM);
    std::cout << (bad ? "DEFECT: flattenModel changed a model it does not own\n" : "ok\n");
    return bad ? 1 : 0;
}
