// Triage replay (not a registered check): a reset whose variable / test variable is not in any component.
#include <libcellml>
#include <cstdio>
using namespace libcellml;
int main(int argc, char **argv)
{
    int which = argc > 1 ? atoi(argv[1]) : 0;
    auto m = Model::create("m");
    auto c = Component::create("c");
    m->addComponent(c);
    auto v = Variable::create("v"); v->setUnits("second");
    c->addVariable(v);
    auto orphan = Variable::create("o"); orphan->setUnits("second");
    auto r = Reset::create();
    r->setOrder(1);
    r->setVariable(which == 1 ? orphan : v);
    r->setTestVariable(which == 2 ? orphan : v);
    r->setTestValue("<math xmlns=\"http://www.w3.org/1998/Math/MathML\"><ci>v</ci></math>");
    r->setResetValue("<math xmlns=\"http://www.w3.org/1998/Math/MathML\"><ci>v</ci></math>");
    c->addReset(r);
    if (which == 3) { // equivalence with a parentless variable
        Variable::addEquivalence(v, orphan);
    }
    auto val = Validator::create();
    val->validateModel(m);
    std::printf("case %d: %zu issues\n", which, val->issueCount());
    for (size_t i = 0; i < val->issueCount(); ++i) std::printf("  %s\n", val->issue(i)->description().c_str());
    return 0;
}
