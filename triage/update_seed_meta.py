#!/usr/bin/env python3
"""Writes into every seeded/<id>/meta.json what I ran to confirm the change and which rule of the property's check reports it
(from seeded/confirm_HEAD.log and the self_validation section of the last thorough evidence files)."""
import glob
import json
import os
import re

HERE = os.path.dirname(os.path.dirname(os.path.abspath(__file__)))
log = open(os.path.join(HERE, 'seeded', 'confirm_HEAD.log')).read()
blocks = {}
for m in re.finditer(r'^== (\S+)([^\n]*)\n(.*?)(?=^== |\Z)', log, re.S | re.M):
    blocks[m.group(1)] = (m.group(2).strip(), m.group(3).strip())   # the last block of an id wins
rules = {}
for p in glob.glob(os.path.join(HERE, 'evidence', 'C*.json')):
    e = json.load(open(p))
    sv = e['coverage'].get('self_validation') or {}
    for k, v in sv.get('detected_ids', {}).items():
        if k.startswith('seed:'):
            rules[k[5:]] = [x.replace('rule ', '') for x in v]
n = 0
for d in sorted(glob.glob(os.path.join(HERE, 'seeded', 'C*'))):
    sid = os.path.basename(d)
    mp = os.path.join(d, 'meta.json')
    if not os.path.exists(mp):
        continue
    meta = json.load(open(mp))
    head, body = blocks.get(sid, ('', ''))
    meta['verified_by_me'] = {
        'what_i_ran': 'triage/confirm_seed.sh %s : scratch worktree of /repo (outside /repo and /verif), build, demo on the pristine tree, `git apply patch.diff`, rebuild, full ctest, demo again; '
                      'then triage/try_seed.sh (git -C /repo apply, ./check %s, git -C /repo checkout -- .)' % (sid, meta.get('property')),
        'on_commit': head,
        'result': body,
        'reported_by_rules': rules.get(sid, []),
        'patch_rebased': os.path.exists(os.path.join(d, 'patch.original.diff')),
    }
    json.dump(meta, open(mp, 'w'), indent=1)
    n += 1
print('%d meta.json files updated; %d with confirmation records, %d with rule records' % (n, sum(1 for d in glob.glob(os.path.join(HERE, 'seeded', 'C*')) if os.path.basename(d) in blocks), len(rules)))
