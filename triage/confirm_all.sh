#!/bin/bash
# Triage helper: confirm every seeded change on /repo HEAD in three scratch worktrees (lanes); writes seeded/confirm_HEAD.log
cd /verif
H=$(git -C /repo rev-parse --short HEAD)
ids=(${@:-$(ls seeded | grep '^C')})
rm -f /tmp/confirm_lane_*.log
lane() {
  L=$1; shift
  for s in "$@"; do
    { echo "== $s $H"; SEEDW=/tmp/seedconfirm$L triage/confirm_seed.sh /verif/seeded/$s 2>&1; } >> /tmp/confirm_lane_$L.log
  done
}
n=${#ids[@]}
a=(); b=(); c=()
for i in "${!ids[@]}"; do case $((i%3)) in 0) a+=(${ids[$i]});; 1) b+=(${ids[$i]});; 2) c+=(${ids[$i]});; esac; done
lane 1 "${a[@]}" & lane 2 "${b[@]}" & lane 3 "${c[@]}" &
wait
if [ $# -gt 0 ]; then cat /tmp/confirm_lane_1.log /tmp/confirm_lane_2.log /tmp/confirm_lane_3.log >> seeded/confirm_HEAD.log; else cat /tmp/confirm_lane_1.log /tmp/confirm_lane_2.log /tmp/confirm_lane_3.log > seeded/confirm_HEAD.log; fi
for L in 1 2 3; do git -C /repo worktree remove --force /tmp/seedconfirm$L; rm -rf /tmp/seedconfirm$L.*; done
git -C /repo worktree prune
echo CONFIRM-ALL-DONE
