#!/usr/bin/env python3
"""Regenerates the tables of DESIGN.md section 6 (between the GENERATED markers) from the evidence files written by
`./check <id> --tier thorough`, known_findings.json and mutants/mutants.json.  Documentation only."""
import glob
import json
import os
import re

HERE = os.path.dirname(os.path.abspath(__file__))


def main():
    out = []
    ev = {}
    for p in sorted(glob.glob(os.path.join(HERE, 'evidence', 'C*.json'))):
        e = json.load(open(p))
        ev[e['property_id']] = e
    out.append('#### 6.3.1 Rules per property (from the last thorough run; obligations discharged / enumerated)\n')
    out.append('| property | rule | instances | what the rule requires |')
    out.append('|---|---|---|---|')
    for pid, e in ev.items():
        for r, v in sorted(e['coverage']['per_rule'].items()):
            out.append('| %s | %s | %d/%d | %s |' % (pid, r, v['discharged'], v['obligations'], v['text'].replace('|', '\\|')))
    out.append('')
    out.append('#### 6.3.2 Breaking edits replayed by the thorough tier (scratch copy of /repo/src; `seed:` = written by an independent agent, others = my own mutants)\n')
    out.append('| property | edit | what it breaks | reported by |')
    out.append('|---|---|---|---|')
    ms = {m['id']: m for m in json.load(open(os.path.join(HERE, 'mutants', 'mutants.json')))}
    for pid, e in ev.items():
        sv = e['coverage'].get('self_validation')
        if not sv:
            continue
        for mid, rules in sorted(sv['detected_ids'].items()):
            note = ms.get(mid, {}).get('note', '')
            if mid.startswith('seed:'):
                mp = os.path.join(HERE, 'seeded', mid[5:], 'meta.json')
                if os.path.exists(mp):
                    note = json.load(open(mp)).get('summary', '')[:160].replace('\n', ' ')
            out.append('| %s | %s | %s | %s |' % (pid, mid, note.replace('|', '\\|'), ', '.join(x.replace('rule ', '') for x in rules)))
        for r in sv['not_detected']:
            out.append('| %s | %s | %s | **%s** %s |' % (pid, r['id'], ms.get(r['id'], {}).get('note', ''), r['status'], r.get('why', '')))
    out.append('')
    k = json.load(open(os.path.join(HERE, 'known_findings.json')))
    out.append('#### 6.3.3 Findings on the pinned tree\n')
    out.append('Repaired (`fix:` commits in /repo, in order; the unedited suite passes after each):\n')
    for f in k['fixed']:
        out.append('* ' + f.replace('fixed: ', ''))
    out.append('')
    out.append('Recorded as known findings (printed as KNOWN-FINDING on every run, exit 0):\n')
    out.append('| property | key | what fails | replay / why not repaired |')
    out.append('|---|---|---|---|')
    for x in k['known']:
        out.append('| %s | `%s` | %s | %s |' % (x['property'], x['key'].replace('|', '\\|'), x['what'].replace('|', '\\|'), x.get('replayed', '').replace('|', '\\|')))
    txt = '\n'.join(out) + '\n'
    p = os.path.join(HERE, 'DESIGN.md')
    s = open(p).read()
    a, b = '<!-- BEGIN GENERATED TABLES -->', '<!-- END GENERATED TABLES -->'
    if a not in s:
        raise SystemExit('markers missing in DESIGN.md')
    s = s[:s.index(a) + len(a)] + '\n' + txt + s[s.index(b):]
    open(p, 'w').write(s)
    print('DESIGN.md tables regenerated: %d properties' % len(ev))


if __name__ == '__main__':
    main()
