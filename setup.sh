#!/bin/sh
# Offline setup: build the libTooling fact extractor (about 30 s) and warm the fact cache for the current /repo tree.
set -e
cd "$(dirname "$0")"
python3 - <<'PY'
import sys
sys.path.insert(0, 'sa')
import facts
facts.build_extractor(force=True)
F = facts.Facts()
print('facts ready:', F.stats())
PY
